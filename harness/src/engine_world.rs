//! Real `Engine` behind simulator-owned seams (used by Sim B and Sim F).
//!
//! Real: `Engine::{process, action, ...}`, `EngineState`, `MultiExchangeTxMap`, all engine actions,
//! default close-positions logic. Stub: `SimTx` execution links (healthy / unhealthy / closed /
//! missing), scripted strategy + risk manager, `SimClock`, and the event feed.

use crate::{kit::rng::Rng, world::*};
use barter::{
    EngineEvent,
    engine::{
        Engine, Processor,
        clock::EngineClock,
        command::Command,
        execution_tx::MultiExchangeTxMap,
        state::{
            instrument::filter::InstrumentFilter,
            trading::TradingState,
        },
    },
    execution::{AccountStreamEvent, request::ExecutionRequest},
    risk::{RiskApproved, RiskManager, RiskRefused},
    strategy::{
        algo::AlgoStrategy,
        close_positions::{ClosePositionsStrategy, close_open_positions_with_market_orders},
        on_disconnect::OnDisconnectStrategy,
        on_trading_disabled::OnTradingDisabled,
    },
};
use barter_data::{
    event::{DataKind, MarketEvent},
    streams::consumer::MarketStreamEvent,
    subscription::{candle::Candle, liquidation::Liquidation},
};
use barter_execution::{
    AccountEvent, AccountEventKind,
    error::{ApiError, ConnectivityError, OrderError},
    order::{
        OrderKind,
        id::{ClientOrderId, OrderId, StrategyId},
        request::{OrderRequestCancel, OrderRequestOpen, OrderResponseCancel},
        state::{Cancelled, InactiveOrderState, Open, OrderState},
    },
};
use barter_instrument::{
    Side, Underlying,
    asset::AssetIndex,
    exchange::{ExchangeId, ExchangeIndex},
    index::IndexedInstruments,
    instrument::InstrumentIndex,
};
use barter_integration::{
    Unrecoverable,
    channel::Tx,
    collection::one_or_many::OneOrMany,
};
use chrono::{DateTime, Utc};
use rust_decimal::Decimal;
use serde::{Deserialize, Serialize};
use std::sync::{Arc, Mutex};

// ------------------------------------------------------------------------------------------------
// Seams
// ------------------------------------------------------------------------------------------------

#[derive(Clone, Copy, Debug, PartialEq, Eq, Serialize, Deserialize)]
pub enum LinkMode {
    Healthy,
    /// send fails with an error whose `is_unrecoverable()` is false
    Unhealthy,
    /// send fails with an unrecoverable error (receiver gone)
    Closed,
}

#[derive(Debug)]
pub struct SimTxInner {
    pub mode: LinkMode,
    pub received: Vec<ExecutionRequest>,
}

#[derive(Clone, Debug)]
pub struct SimTx(pub Arc<Mutex<SimTxInner>>);

#[derive(Debug)]
pub struct SimTxError {
    pub unrecoverable: bool,
}

impl Unrecoverable for SimTxError {
    fn is_unrecoverable(&self) -> bool {
        self.unrecoverable
    }
}

impl Tx for SimTx {
    type Item = ExecutionRequest;
    type Error = SimTxError;

    fn send<Item: Into<Self::Item>>(&self, item: Item) -> Result<(), Self::Error> {
        let mut inner = self.0.lock().unwrap();
        match inner.mode {
            LinkMode::Healthy => {
                inner.received.push(item.into());
                Ok(())
            }
            LinkMode::Unhealthy => Err(SimTxError {
                unrecoverable: false,
            }),
            LinkMode::Closed => Err(SimTxError {
                unrecoverable: true,
            }),
        }
    }
}

#[derive(Debug, Clone)]
pub struct SimClock {
    pub now_ms: i64,
}

impl EngineClock for SimClock {
    fn time(&self) -> DateTime<Utc> {
        ts(self.now_ms)
    }
}

impl<Event> Processor<&Event> for SimClock {
    type Audit = ();
    fn process(&mut self, _: &Event) -> Self::Audit {
        // one simulated millisecond per processed event
        self.now_ms += 1;
    }
}

/// What the scripted strategy will return on its next invocation, and what the risk manager
/// refuses. Set by the simulator before every engine step.
#[derive(Debug, Default)]
pub struct StrategyScript {
    pub next: Option<(Vec<OrderRequestCancel>, Vec<OrderRequestOpen>)>,
    /// close-positions requests are produced by the shipped `DefaultStrategy` (ids re-labelled)
    pub default_close: bool,
    /// whole-system runs (Sim H): batches released once the strategy has been asked `.0` times
    pub queue: std::collections::VecDeque<(u64, Vec<OrderRequestCancel>, Vec<OrderRequestOpen>)>,
    /// number of queued batches released so far
    pub released: u64,
    pub algo_calls: u64,
    pub disconnects: Vec<ExchangeId>,
    pub trading_disabled_calls: u64,
    pub close_seq: u64,
    pub refuse_cancel_cids: Vec<String>,
    pub refuse_open_cids: Vec<String>,
}

#[derive(Debug, Clone)]
pub struct SimStrategy {
    pub id: StrategyId,
    pub script: Arc<Mutex<StrategyScript>>,
}

impl AlgoStrategy for SimStrategy {
    type State = St;

    fn generate_algo_orders(
        &self,
        _: &Self::State,
    ) -> (
        impl IntoIterator<Item = OrderRequestCancel<ExchangeIndex, InstrumentIndex>>,
        impl IntoIterator<Item = OrderRequestOpen<ExchangeIndex, InstrumentIndex>>,
    ) {
        let mut s = self.script.lock().unwrap();
        s.algo_calls += 1;
        if let Some(next) = s.next.take() {
            return next;
        }
        if s.queue.front().is_some_and(|(at, _, _)| *at <= s.algo_calls) {
            let (_, c, o) = s.queue.pop_front().unwrap();
            s.released += 1;
            return (c, o);
        }
        Default::default()
    }
}

impl ClosePositionsStrategy for SimStrategy {
    type State = St;

    fn close_positions_requests<'a>(
        &'a self,
        state: &'a Self::State,
        filter: &'a InstrumentFilter,
    ) -> (
        impl IntoIterator<Item = OrderRequestCancel<ExchangeIndex, InstrumentIndex>> + 'a,
        impl IntoIterator<Item = OrderRequestOpen<ExchangeIndex, InstrumentIndex>> + 'a,
    )
    where
        ExchangeIndex: 'a,
        AssetIndex: 'a,
        InstrumentIndex: 'a,
    {
        let label = move |inst: usize| {
            let mut s = self.script.lock().unwrap();
            s.close_seq += 1;
            ClientOrderId::new(format!("close{inst}-{}", s.close_seq))
        };
        if self.script.lock().unwrap().default_close {
            // the shipped implementation itself (it labels orders with random client order ids, which
            // are replaced by deterministic ones; its strategy id is kept)
            let default = barter::strategy::DefaultStrategy::<St>::default();
            let (cancels, opens) = default.close_positions_requests(state, filter);
            let cancels: Vec<OrderRequestCancel> = cancels.into_iter().collect();
            let opens: Vec<OrderRequestOpen> = opens
                .into_iter()
                .map(|mut o| {
                    o.key.cid = label(o.key.instrument.0);
                    o.key.strategy = self.id.clone();
                    o
                })
                .collect();
            return (cancels, opens);
        }
        // the real default logic, with deterministic (and unique) client order ids
        let (cancels, opens) = close_open_positions_with_market_orders(&self.id, state, filter, move |inst| label(inst.key.0));
        (cancels.into_iter().collect::<Vec<_>>(), opens.into_iter().collect::<Vec<_>>())
    }
}

impl<Clock, ExecutionTxs, Risk> OnDisconnectStrategy<Clock, St, ExecutionTxs, Risk> for SimStrategy {
    type OnDisconnect = ExchangeId;

    fn on_disconnect(
        engine: &mut Engine<Clock, St, ExecutionTxs, Self, Risk>,
        exchange: ExchangeId,
    ) -> Self::OnDisconnect {
        engine
            .strategy
            .script
            .lock()
            .unwrap()
            .disconnects
            .push(exchange);
        exchange
    }
}

impl<Clock, ExecutionTxs, Risk> OnTradingDisabled<Clock, St, ExecutionTxs, Risk> for SimStrategy {
    type OnTradingDisabled = u64;

    fn on_trading_disabled(
        engine: &mut Engine<Clock, St, ExecutionTxs, Self, Risk>,
    ) -> Self::OnTradingDisabled {
        let mut s = engine.strategy.script.lock().unwrap();
        s.trading_disabled_calls += 1;
        s.trading_disabled_calls
    }
}

#[derive(Debug, Clone)]
pub struct SimRisk {
    pub script: Arc<Mutex<StrategyScript>>,
}

impl RiskManager for SimRisk {
    type State = St;

    fn check(
        &self,
        _: &Self::State,
        cancels: impl IntoIterator<Item = OrderRequestCancel<ExchangeIndex, InstrumentIndex>>,
        opens: impl IntoIterator<Item = OrderRequestOpen<ExchangeIndex, InstrumentIndex>>,
    ) -> (
        impl IntoIterator<Item = RiskApproved<OrderRequestCancel<ExchangeIndex, InstrumentIndex>>>,
        impl IntoIterator<Item = RiskApproved<OrderRequestOpen<ExchangeIndex, InstrumentIndex>>>,
        impl IntoIterator<Item = RiskRefused<OrderRequestCancel<ExchangeIndex, InstrumentIndex>>>,
        impl IntoIterator<Item = RiskRefused<OrderRequestOpen<ExchangeIndex, InstrumentIndex>>>,
    ) {
        let s = self.script.lock().unwrap();
        let (mut ac, mut ao, mut rc, mut ro) = (Vec::new(), Vec::new(), Vec::new(), Vec::new());
        for c in cancels {
            if s.refuse_cancel_cids.iter().any(|x| x.as_str() == c.key.cid.0.as_str() || *x == format!("{}:{}", c.key.instrument.0, c.key.cid.0)) {
                rc.push(RiskRefused::new(c, "sim refuses"));
            } else {
                ac.push(RiskApproved::new(c));
            }
        }
        for o in opens {
            if s.refuse_open_cids.iter().any(|x| x.as_str() == o.key.cid.0.as_str() || *x == format!("{}:{}", o.key.instrument.0, o.key.cid.0)) {
                ro.push(RiskRefused::new(o, "sim refuses"));
            } else {
                ao.push(RiskApproved::new(o));
            }
        }
        (ac, ao, rc, ro)
    }
}

pub type SimEngine = Engine<SimClock, St, MultiExchangeTxMap<SimTx>, SimStrategy, SimRisk>;
pub type Ev = EngineEvent<DataKind>;

// ------------------------------------------------------------------------------------------------
// Scenario data
// ------------------------------------------------------------------------------------------------

#[derive(Clone, Debug, Serialize, Deserialize, PartialEq)]
pub struct TopoB {
    /// instruments per exchange (1..=3), exchange e is EXS[e]
    pub inst_per_ex: Vec<usize>,
    /// None = exchange has no execution link at all
    pub links: Vec<Option<LinkMode>>,
    /// every second instrument of an exchange is a perpetual with a contract size other than 1
    #[serde(default)]
    pub derivs: bool,
    /// the instruments carry a specification (quantity increment 2, tick size, minimum notional) and
    /// close-positions requests come from the shipped `DefaultStrategy` implementation (client order
    /// ids re-labelled deterministically)
    #[serde(default)]
    pub with_spec: bool,
}

/// An order the scenario may request / report about. cid is "o{index}".
#[derive(Clone, Debug, Serialize, Deserialize, PartialEq)]
pub struct OrdB {
    /// exchange index named in the request key (may be >= number of exchanges: unknown index)
    pub ex: usize,
    pub inst: usize,
    pub buy: bool,
    pub qty: i64,
    pub price: i64,
    pub market: bool,
    /// this order carries the client order id of that other order, which lives on another
    /// instrument (orders are keyed by client order id per instrument)
    #[serde(default)]
    pub twin: Option<usize>,
}

thread_local! {
    /// order -> order whose client order id it shares (set by `WorldB::build` for the scenario at hand)
    static CID_ALIAS: std::cell::RefCell<Vec<Option<usize>>> = const { std::cell::RefCell::new(Vec::new()) };
}

#[derive(Clone, Debug, Serialize, Deserialize, PartialEq)]
pub enum RepB {
    Open { t: i64, filled: i64 },
    FullyFilled,
    Cancelled { t: i64 },
    Expired,
    Failed,
}

#[derive(Clone, Debug, Serialize, Deserialize, PartialEq)]
pub enum FilterB {
    None,
    Exchanges(Vec<usize>),
    Instruments(Vec<usize>),
    /// underlying of instrument i (as held by the engine state)
    UnderlyingsOf(Vec<usize>),
}

#[derive(Clone, Debug, Serialize, Deserialize, PartialEq)]
pub enum MktB {
    Trade { price: i64 },
    L1 { bid: i64, ask: i64, bid_amt: i64, ask_amt: i64 },
    Candle,
    Liquidation,
}

#[derive(Clone, Debug, Serialize, Deserialize, PartialEq)]
pub enum EvB {
    Market { inst: usize, t: i64, kind: MktB },
    MarketReconnecting { ex: usize },
    AccountReconnecting { ex: usize },
    OrderReport { ord: usize, rep: RepB },
    CancelResp { ord: usize, ok: bool, t: i64 },
    Balance { asset: usize, t: i64, total: i64 },
    Fill { inst: usize, buy: bool, qty: i64, price: i64, fee_bp: i64, t: i64 },
    Trading { enabled: bool },
    CmdOpen { ords: Vec<usize> },
    CmdCancel { ords: Vec<usize> },
    CmdCancelOrders { filter: FilterB },
    CmdClosePositions { filter: FilterB },
    Shutdown,
}

#[derive(Clone, Debug, Serialize, Deserialize, PartialEq, Default)]
pub struct AlgoB {
    pub cancels: Vec<usize>,
    pub opens: Vec<usize>,
    pub refuse_cancels: Vec<usize>,
    pub refuse_opens: Vec<usize>,
}

#[derive(Clone, Debug, Serialize, Deserialize, PartialEq)]
pub struct StepB {
    /// before this step the engine state is persisted and restored (serialised to JSON and read
    /// back): a restart that keeps only what was written down
    #[serde(default)]
    pub restore: bool,
    /// link state changes applied immediately before the event is processed
    pub flips: Vec<(usize, LinkMode)>,
    /// what the strategy returns if the engine asks it during this step
    pub algo: Option<AlgoB>,
    pub ev: EvB,
}

#[derive(Clone, Debug, Serialize, Deserialize)]
pub struct ScenarioB {
    /// C14 only: market / account items and disconnect notices reach the feed through real
    /// reconnecting streams (one per exchange link) instead of being fed directly
    #[serde(default)]
    pub via_streams: bool,
    pub topo: TopoB,
    pub trading_enabled_at_start: bool,
    pub init_bal: Vec<Option<i64>>,
    pub ords: Vec<OrdB>,
    pub steps: Vec<StepB>,
}

// ------------------------------------------------------------------------------------------------
// World
// ------------------------------------------------------------------------------------------------

pub const PAIRS: [(&str, &str); 3] = [("btc", "usdt"), ("eth", "usdt"), ("eth", "btc")];

pub struct WorldB {
    pub instruments: IndexedInstruments,
    pub n_ex: usize,
    pub inst_ex: Vec<usize>,
    pub inst_underlying: Vec<Underlying<AssetIndex>>,
    pub asset_ex: Vec<usize>,
    pub links: Vec<Option<SimTx>>,
    pub script: Arc<Mutex<StrategyScript>>,
}

pub fn topo_instruments_b(topo: &TopoB) -> IndexedInstruments {
    let mut v = Vec::new();
    for (e, n) in topo.inst_per_ex.iter().enumerate() {
        for (k, p) in PAIRS.iter().take((*n).clamp(1, 3)).enumerate() {
            if topo.derivs && k % 2 == 1 {
                let mut i = perp(EXS[e], p.0, p.1);
                if let barter_instrument::instrument::kind::InstrumentKind::Perpetual(c) = &mut i.kind {
                    c.contract_size = if e % 2 == 0 { Decimal::new(10, 0) } else { Decimal::new(1, 2) };
                }
                v.push(i);
            } else {
                v.push(spot(EXS[e], p.0, p.1));
            }
            if topo.with_spec {
                use barter_instrument::instrument::spec::{InstrumentSpec, InstrumentSpecNotional, InstrumentSpecPrice, InstrumentSpecQuantity, OrderQuantityUnits};
                if let Some(i) = v.last_mut() {
                    i.spec = Some(InstrumentSpec {
                        price: InstrumentSpecPrice { min: Decimal::ZERO, tick_size: Decimal::new(1, 2) },
                        quantity: InstrumentSpecQuantity { unit: OrderQuantityUnits::Contract, min: Decimal::ZERO, increment: Decimal::new(2, 0) },
                        notional: InstrumentSpecNotional { min: Decimal::ZERO },
                    });
                }
            }
        }
    }
    IndexedInstruments::new(v)
}

impl WorldB {
    pub fn build(sc: &ScenarioB) -> (WorldB, SimEngine) {
        CID_ALIAS.with(|a| {
            *a.borrow_mut() = sc
                .ords
                .iter()
                .map(|o| o.twin.filter(|t| *t < sc.ords.len() && sc.ords[*t].twin.is_none() && sc.ords[*t].inst != o.inst))
                .collect()
        });
        let instruments = topo_instruments_b(&sc.topo);
        let n_ex = instruments.exchanges().len();
        let inst_ex: Vec<usize> = instruments
            .instruments()
            .iter()
            .map(|i| i.value.exchange.key.0)
            .collect();
        let inst_underlying = instruments
            .instruments()
            .iter()
            .map(|i| i.value.underlying.clone())
            .collect();
        let asset_ex: Vec<usize> = instruments
            .assets()
            .iter()
            .map(|a| instruments.find_exchange_index(a.value.exchange).unwrap().0)
            .collect();
        let links: Vec<Option<SimTx>> = (0..n_ex)
            .map(|e| {
                sc.topo.links.get(e).copied().flatten().map(|mode| {
                    SimTx(Arc::new(Mutex::new(SimTxInner {
                        mode,
                        received: Vec::new(),
                    })))
                })
            })
            .collect();
        let balances: Vec<(ExchangeId, String, i64)> = sc
            .init_bal
            .iter()
            .enumerate()
            .filter_map(|(a, b)| {
                let b = (*b)?;
                let ea = instruments.assets().get(a)?;
                Some((
                    ea.value.exchange,
                    ea.value.asset.name_internal.name().to_string(),
                    b,
                ))
            })
            .collect();
        let bal_refs: Vec<(ExchangeId, &str, i64)> =
            balances.iter().map(|(e, s, b)| (*e, s.as_str(), *b)).collect();
        let state = build_state(
            &instruments,
            if sc.trading_enabled_at_start {
                TradingState::Enabled
            } else {
                TradingState::Disabled
            },
            &bal_refs,
        );
        let script = Arc::new(Mutex::new(StrategyScript { default_close: sc.topo.with_spec, ..Default::default() }));
        let txs: MultiExchangeTxMap<SimTx> = instruments
            .exchanges()
            .iter()
            .map(|e| (e.value, links[e.key.0].clone()))
            .collect();
        let engine = Engine::new(
            SimClock { now_ms: 0 },
            state,
            txs,
            SimStrategy {
                id: strategy_id(),
                script: script.clone(),
            },
            SimRisk {
                script: script.clone(),
            },
        );
        (
            WorldB {
                instruments,
                n_ex,
                inst_ex,
                inst_underlying,
                asset_ex,
                links,
                script,
            },
            engine,
        )
    }

    pub fn n_inst(&self) -> usize {
        self.inst_ex.len()
    }
    pub fn n_assets(&self) -> usize {
        self.asset_ex.len()
    }

    pub fn cid(ord: usize) -> String {
        let ord = CID_ALIAS.with(|a| a.borrow().get(ord).copied().flatten()).unwrap_or(ord);
        format!("o{ord}")
    }

    pub fn ord_valid(&self, sc: &ScenarioB, ord: usize) -> bool {
        sc.ords.get(ord).is_some_and(|o| o.inst < self.n_inst())
    }

    pub fn open_request(&self, sc: &ScenarioB, ord: usize) -> OrderRequestOpen {
        let o = &sc.ords[ord];
        request_open(
            okey(o.ex, o.inst, &Self::cid(ord)),
            o.buy,
            dec(o.price),
            dec(o.qty),
            if o.market {
                OrderKind::Market
            } else {
                OrderKind::Limit
            },
        )
    }

    pub fn cancel_request(&self, sc: &ScenarioB, ord: usize) -> OrderRequestCancel {
        let o = &sc.ords[ord];
        request_cancel(okey(o.ex, o.inst, &Self::cid(ord)), None)
    }

    pub fn filter(&self, f: &FilterB) -> InstrumentFilter {
        match f {
            FilterB::None => InstrumentFilter::None,
            FilterB::Exchanges(v) => InstrumentFilter::exchanges(v.iter().map(|e| ExchangeIndex(*e))),
            FilterB::Instruments(v) => {
                InstrumentFilter::instruments(v.iter().map(|i| InstrumentIndex(*i)))
            }
            FilterB::UnderlyingsOf(v) => InstrumentFilter::underlyings(
                v.iter()
                    .filter(|i| **i < self.n_inst())
                    .map(|i| self.inst_underlying[*i].clone()),
            ),
        }
    }

    /// Which instruments a filter names — computed from the instrument definitions only
    /// (independent of the engine's own filtering code).
    pub fn scope(&self, f: &FilterB) -> Vec<bool> {
        (0..self.n_inst())
            .map(|i| match f {
                FilterB::None => true,
                FilterB::Exchanges(v) => v.contains(&self.inst_ex[i]),
                FilterB::Instruments(v) => v.contains(&i),
                FilterB::UnderlyingsOf(v) => v
                    .iter()
                    .filter(|j| **j < self.n_inst())
                    .any(|j| self.inst_underlying[*j] == self.inst_underlying[i]),
            })
            .collect()
    }

    /// Is the event well formed for this topology (ops may dangle after shrinking)?
    pub fn ev_valid(&self, sc: &ScenarioB, ev: &EvB) -> bool {
        match ev {
            EvB::Market { inst, .. } | EvB::Fill { inst, .. } => *inst < self.n_inst(),
            EvB::MarketReconnecting { ex } | EvB::AccountReconnecting { ex } => *ex < self.n_ex,
            EvB::OrderReport { ord, .. } | EvB::CancelResp { ord, .. } => {
                self.ord_valid(sc, *ord) && sc.ords[*ord].ex < self.n_ex
            }
            EvB::Balance { asset, .. } => *asset < self.n_assets(),
            EvB::CmdOpen { ords } | EvB::CmdCancel { ords } => {
                !ords.is_empty() && ords.iter().all(|o| self.ord_valid(sc, *o))
            }
            EvB::CmdCancelOrders { filter } | EvB::CmdClosePositions { filter } => match filter {
                FilterB::None => true,
                FilterB::Exchanges(_) | FilterB::Instruments(_) => true,
                FilterB::UnderlyingsOf(v) => v.is_empty() || v.iter().any(|i| *i < self.n_inst()),
            },
            EvB::Trading { .. } | EvB::Shutdown => true,
        }
    }

    pub fn to_event(&self, sc: &ScenarioB, ev: &EvB) -> Ev {
        match ev {
            EvB::Market { inst, t, kind } => {
                let ex = EXS[self.inst_ex[*inst]];
                let me: MarketEvent<InstrumentIndex, DataKind> = match kind {
                    MktB::Trade { price } => mk_public_trade(ex, *inst, *t, *price as f64, "p"),
                    MktB::L1 {
                        bid,
                        ask,
                        bid_amt,
                        ask_amt,
                    } => mk_l1(
                        ex,
                        *inst,
                        *t,
                        Some((dec(*bid), dec(*bid_amt))),
                        Some((dec(*ask), dec(*ask_amt))),
                    ),
                    MktB::Candle => MarketEvent {
                        time_exchange: ts(*t),
                        time_received: ts(*t),
                        exchange: ex,
                        instrument: InstrumentIndex(*inst),
                        kind: DataKind::Candle(Candle {
                            close_time: ts(*t),
                            open: 1.0,
                            high: 2.0,
                            low: 0.5,
                            close: 1.5,
                            volume: 10.0,
                            trade_count: 3,
                        }),
                    },
                    MktB::Liquidation => MarketEvent {
                        time_exchange: ts(*t),
                        time_received: ts(*t),
                        exchange: ex,
                        instrument: InstrumentIndex(*inst),
                        kind: DataKind::Liquidation(Liquidation {
                            side: Side::Buy,
                            price: 77.0,
                            quantity: 1.0,
                            time: ts(*t),
                        }),
                    },
                };
                EngineEvent::Market(MarketStreamEvent::Item(me))
            }
            EvB::MarketReconnecting { ex } => {
                EngineEvent::Market(MarketStreamEvent::Reconnecting(EXS[*ex]))
            }
            EvB::AccountReconnecting { ex } => {
                EngineEvent::Account(AccountStreamEvent::Reconnecting(EXS[*ex]))
            }
            EvB::OrderReport { ord, rep } => {
                let o = &sc.ords[*ord];
                let ex = o.ex;
                let state = match rep {
                    RepB::Open { t, filled } => OrderState::active(Open {
                        id: OrderId::new(format!("x{ord}")),
                        time_exchange: ts(*t),
                        filled_quantity: dec(*filled),
                    }),
                    RepB::FullyFilled => OrderState::fully_filled(),
                    RepB::Cancelled { t } => OrderState::inactive(Cancelled {
                        id: OrderId::new(format!("x{ord}")),
                        time_exchange: ts(*t),
                    }),
                    RepB::Expired => OrderState::expired(),
                    // (the kind of failure varies with the order: rejected / exchange offline / timeout)
                    RepB::Failed => OrderState::Inactive(InactiveOrderState::OpenFailed(match ord % 3 {
                        0 => OrderError::Rejected(ApiError::OrderRejected("sim".into())),
                        1 => OrderError::Connectivity(ConnectivityError::ExchangeOffline(EXS[ex.min(3)])),
                        _ => OrderError::Connectivity(ConnectivityError::Timeout),
                    })),
                };
                let mut snap = order_snapshot(
                    okey(ex, o.inst, &Self::cid(*ord)),
                    o.buy,
                    dec(o.price),
                    dec(o.qty),
                    state,
                );
                if o.market {
                    // the exchange reports the order with the attributes it was requested with
                    snap.kind = OrderKind::Market;
                    snap.time_in_force = barter_execution::order::TimeInForce::ImmediateOrCancel;
                }
                EngineEvent::Account(AccountStreamEvent::Item(ev_order_snapshot(ex, snap)))
            }
            EvB::CancelResp { ord, ok, t } => {
                let o = &sc.ords[*ord];
                EngineEvent::Account(AccountStreamEvent::Item(AccountEvent {
                    exchange: ExchangeIndex(o.ex),
                    kind: AccountEventKind::OrderCancelled(OrderResponseCancel {
                        key: okey(o.ex, o.inst, &Self::cid(*ord)),
                        state: if *ok {
                            Ok(Cancelled {
                                id: OrderId::new(format!("x{ord}")),
                                time_exchange: ts(*t),
                            })
                        } else {
                            match t.rem_euclid(4) {
                                0 => Err(OrderError::Connectivity(ConnectivityError::Timeout)),
                                1 => Err(OrderError::Rejected(ApiError::RateLimit)),
                                2 => Err(OrderError::Connectivity(ConnectivityError::ExchangeOffline(EXS[o.ex.min(3)]))),
                                _ => Err(OrderError::Rejected(ApiError::OrderRejected("sim".into()))),
                            }
                        },
                    }),
                }))
            }
            EvB::Balance { asset, t, total } => EngineEvent::Account(AccountStreamEvent::Item(
                ev_balance(self.asset_ex[*asset], *asset, dec(*total), *t),
            )),
            EvB::Fill {
                inst,
                buy,
                qty,
                price,
                fee_bp,
                t,
            } => {
                let fee = fill_fee(*qty, *price, *fee_bp);
                EngineEvent::Account(AccountStreamEvent::Item(ev_trade(
                    self.inst_ex[*inst],
                    *inst,
                    &format!("tr{t}"),
                    "xf",
                    *buy,
                    dec(*price),
                    dec(*qty),
                    fee,
                    *t,
                )))
            }
            EvB::Trading { enabled } => EngineEvent::TradingStateUpdate(if *enabled {
                TradingState::Enabled
            } else {
                TradingState::Disabled
            }),
            EvB::CmdOpen { ords } => EngineEvent::Command(Command::SendOpenRequests(
                OneOrMany::from_iter(ords.iter().map(|o| self.open_request(sc, *o))),
            )),
            EvB::CmdCancel { ords } => EngineEvent::Command(Command::SendCancelRequests(
                OneOrMany::from_iter(ords.iter().map(|o| self.cancel_request(sc, *o))),
            )),
            EvB::CmdCancelOrders { filter } => {
                EngineEvent::Command(Command::CancelOrders(self.filter(filter)))
            }
            EvB::CmdClosePositions { filter } => {
                EngineEvent::Command(Command::ClosePositions(self.filter(filter)))
            }
            EvB::Shutdown => EngineEvent::shutdown(),
        }
    }

    /// Install what the strategy / risk manager will answer during the next engine step.
    pub fn arm_script(&self, sc: &ScenarioB, algo: &Option<AlgoB>) {
        let mut s = self.script.lock().unwrap();
        s.refuse_cancel_cids.clear();
        s.refuse_open_cids.clear();
        match algo {
            None => s.next = None,
            Some(a) => {
                let cancels: Vec<OrderRequestCancel> = a
                    .cancels
                    .iter()
                    .filter(|o| self.ord_valid(sc, **o))
                    .map(|o| self.cancel_request(sc, *o))
                    .collect();
                let opens: Vec<OrderRequestOpen> = a
                    .opens
                    .iter()
                    .filter(|o| self.ord_valid(sc, **o))
                    .map(|o| self.open_request(sc, *o))
                    .collect();
                // (instrument:cid - a client order id may be in use on two instruments)
                s.refuse_cancel_cids = a.refuse_cancels.iter().filter(|o| **o < sc.ords.len()).map(|o| format!("{}:{}", sc.ords[*o].inst, Self::cid(*o))).collect();
                s.refuse_open_cids = a.refuse_opens.iter().filter(|o| **o < sc.ords.len()).map(|o| format!("{}:{}", sc.ords[*o].inst, Self::cid(*o))).collect();
                s.next = Some((cancels, opens));
            }
        }
    }

    pub fn apply_flips(&self, flips: &[(usize, LinkMode)]) -> usize {
        let mut n = 0;
        for (e, m) in flips {
            if let Some(Some(l)) = self.links.get(*e) {
                l.0.lock().unwrap().mode = *m;
                n += 1;
            }
        }
        n
    }

    pub fn link_mode(&self, e: usize) -> Option<LinkMode> {
        self.links
            .get(e)
            .and_then(|l| l.as_ref())
            .map(|l| l.0.lock().unwrap().mode)
    }

    pub fn received_len(&self, e: usize) -> usize {
        self.links
            .get(e)
            .and_then(|l| l.as_ref())
            .map(|l| l.0.lock().unwrap().received.len())
            .unwrap_or(0)
    }

    pub fn received_since(&self, e: usize, from: usize) -> Vec<ExecutionRequest> {
        self.links
            .get(e)
            .and_then(|l| l.as_ref())
            .map(|l| l.0.lock().unwrap().received[from..].to_vec())
            .unwrap_or_default()
    }
}

pub fn fill_fee(qty: i64, price: i64, fee_bp: i64) -> Decimal {
    // fee = value * bp / 10_000, exact in decimal
    Decimal::new(qty * price * fee_bp, 4)
}

// ------------------------------------------------------------------------------------------------
// Planner (shared; knobs bias it towards the property under test)
// ------------------------------------------------------------------------------------------------

#[derive(Clone, Copy, Debug, PartialEq, Eq)]
pub enum Focus {
    /// C03: requests, link faults, risk refusals, trading toggles, commands
    Requests,
    /// C14: reconnect notices across exchanges
    Connectivity,
    /// C15: fills interleaved with priced market events
    Pnl,
    /// C19: filtered cancel / close commands landing inside in-flight windows
    Commands,
    /// C10: everything, ends with shutdown / feed end / fatal error
    Audit,
}

pub struct PlanCfg {
    pub focus: Focus,
    /// inject link faults / refusals (false = fault-free sub-batch)
    pub faults: bool,
}

pub fn plan_b(rng: &mut Rng, cfg: &PlanCfg) -> ScenarioB {
    let n_ex = match cfg.focus {
        Focus::Commands => 2 + rng.usize(2),
        Focus::Pnl => 1 + rng.usize(2),
        _ => 1 + rng.usize(4),
    };
    let inst_per_ex: Vec<usize> = (0..n_ex)
        .map(|_| match cfg.focus {
            Focus::Commands => 2 + rng.usize(2),
            _ => 1 + rng.usize(3),
        })
        .collect();
    let links: Vec<Option<LinkMode>> = (0..n_ex)
        .map(|_| {
            if cfg.faults && rng.chance(1, 8) {
                None
            } else {
                Some(LinkMode::Healthy)
            }
        })
        .collect();
    let topo = TopoB {
        inst_per_ex,
        links,
        derivs: cfg.focus == Focus::Pnl && rng.chance(1, 2),
        with_spec: cfg.focus == Focus::Commands && rng.chance(1, 3),
    };
    let instruments = topo_instruments_b(&topo);
    let n_inst = instruments.instruments().len();
    let n_assets = instruments.assets().len();
    let inst_ex: Vec<usize> = instruments
        .instruments()
        .iter()
        .map(|i| i.value.exchange.key.0)
        .collect();
    let init_bal: Vec<Option<i64>> = (0..n_assets)
        .map(|_| {
            if rng.chance(2, 3) {
                Some(rng.range(0, 10_000))
            } else {
                None
            }
        })
        .collect();
    let trading_enabled_at_start = rng.chance(1, 2);

    let mut ords: Vec<OrdB> = Vec::new();
    let mut steps: Vec<StepB> = Vec::new();
    // planner-side rough view of the world (execution may differ; oracles never rely on it)
    let mut enabled = trading_enabled_at_start;
    let mut link_mode: Vec<Option<LinkMode>> = topo.links.clone();
    let mut live: Vec<usize> = Vec::new(); // orders believed open on the exchange
    let mut requested: Vec<usize> = Vec::new(); // orders requested, response pending
    let mut cancel_pending: Vec<usize> = Vec::new();
    let mut filled_of: Vec<i64> = Vec::new();
    let mut t = 10i64;

    let n_steps = match cfg.focus {
        Focus::Connectivity => 10 + rng.usize(60),
        Focus::Pnl => 8 + rng.usize(40),
        _ => 10 + rng.usize(80),
    };

    let new_ord = |rng: &mut Rng, ords: &mut Vec<OrdB>, filled_of: &mut Vec<i64>, faults: bool| -> usize {
        let inst = rng.usize(n_inst);
        let ex = if faults && rng.chance(1, 25) {
            n_ex + rng.usize(2) // unknown exchange index
        } else if faults && n_ex > 1 && rng.chance(1, 20) {
            // a request that names another (known) exchange than the one its instrument is listed
            // on: it goes to the link of the exchange it names
            (inst_ex[inst] + 1 + rng.usize(n_ex - 1)) % n_ex
        } else {
            inst_ex[inst]
        };
        // now and then the client order id of an order on another instrument is used again
        let twin = if faults && rng.chance(1, 12) {
            let free: Vec<usize> = (0..ords.len())
                .filter(|t| ords[*t].twin.is_none() && ords[*t].inst != inst && !ords.iter().any(|o| o.twin == Some(*t)))
                .collect();
            (!free.is_empty()).then(|| free[rng.usize(free.len())])
        } else {
            None
        };
        ords.push(OrdB {
            ex,
            inst,
            buy: rng.chance(1, 2),
            qty: 1 + rng.range(0, 3),
            price: rng.range(50, 150),
            market: rng.chance(1, 4),
            twin,
        });
        filled_of.push(0);
        ords.len() - 1
    };

    let rand_filter = |rng: &mut Rng| -> FilterB {
        let subset = |rng: &mut Rng, n: usize| -> Vec<usize> {
            let mut v: Vec<usize> = (0..n).filter(|_| rng.chance(1, 2)).collect();
            // an empty selection is legal and selects nothing; keep it now and then
            if v.is_empty() && !rng.chance(1, 3) {
                v.push(rng.usize(n));
            }
            v
        };
        match rng.below(4) {
            0 => FilterB::None,
            1 => FilterB::Exchanges(subset(rng, n_ex)),
            2 => FilterB::Instruments(subset(rng, n_inst)),
            _ => FilterB::UnderlyingsOf(subset(rng, n_inst)),
        }
    };

    for k in 0..n_steps {
        t += rng.range(0, 5);
        let mut flips = Vec::new();
        if cfg.faults && rng.chance(1, 10) {
            let e = rng.usize(n_ex);
            if let Some(cur) = link_mode[e] {
                // healthy -> unhealthy -> closed (closed is permanent)
                let next = match cur {
                    LinkMode::Healthy => {
                        if rng.chance(1, 3) {
                            LinkMode::Closed
                        } else {
                            LinkMode::Unhealthy
                        }
                    }
                    LinkMode::Unhealthy => {
                        if rng.chance(1, 2) {
                            LinkMode::Healthy
                        } else {
                            LinkMode::Closed
                        }
                    }
                    LinkMode::Closed => LinkMode::Closed,
                };
                if next != cur {
                    link_mode[e] = Some(next);
                    flips.push((e, next));
                }
            }
        }

        // ---- choose the event -------------------------------------------------------------
        let w = rng.below(100);
        let ev = match cfg.focus {
            Focus::Connectivity => match w {
                0..=24 => EvB::MarketReconnecting { ex: rng.usize(n_ex) },
                25..=49 => EvB::AccountReconnecting { ex: rng.usize(n_ex) },
                50..=74 => EvB::Market {
                    inst: rng.usize(n_inst),
                    t,
                    kind: MktB::Trade {
                        price: rng.range(50, 150),
                    },
                },
                75..=82 => EvB::Balance {
                    asset: rng.usize(n_assets),
                    t,
                    total: rng.range(0, 1000),
                },
                // every account event kind can be the first thing a healed account link delivers
                83..=87 => EvB::Fill {
                    inst: rng.usize(n_inst),
                    buy: rng.chance(1, 2),
                    qty: 1,
                    price: rng.range(50, 150),
                    fee_bp: 0,
                    t,
                },
                88..=91 => {
                    let o = new_ord(rng, &mut ords, &mut filled_of, false);
                    EvB::OrderReport {
                        ord: o,
                        rep: if rng.chance(1, 2) { RepB::Open { t, filled: 0 } } else { RepB::Cancelled { t } },
                    }
                }
                92..=94 => {
                    let o = new_ord(rng, &mut ords, &mut filled_of, false);
                    EvB::CancelResp { ord: o, ok: rng.chance(1, 2), t }
                }
                95..=97 => EvB::Trading {
                    enabled: rng.chance(1, 2),
                },
                _ => EvB::CmdCancelOrders {
                    filter: FilterB::None,
                },
            },
            Focus::Pnl => match w {
                0..=34 => EvB::Fill {
                    inst: rng.usize(n_inst),
                    buy: rng.chance(1, 2),
                    qty: 1 + rng.range(0, 3),
                    price: rng.range(50, 150),
                    // (negative = maker rebate)
                    fee_bp: *rng.pick(&[0i64, 0, 10, 25, -10]),
                    t,
                },
                35..=59 => EvB::Market {
                    inst: rng.usize(n_inst),
                    // sometimes late (older than what was already delivered)
                    t: if rng.chance(1, 5) { t - rng.range(1, 9) } else { t },
                    kind: MktB::Trade {
                        // now and then a zero or negative print (spreads, basis instruments)
                        price: if rng.chance(1, 12) { -rng.range(0, 5) } else { rng.range(50, 150) },
                    },
                },
                60..=84 => {
                    let bid = rng.range(50, 149);
                    EvB::Market {
                        inst: rng.usize(n_inst),
                        t: if rng.chance(1, 5) { t - rng.range(1, 9) } else { t },
                        kind: MktB::L1 {
                            bid,
                            ask: bid + rng.range(1, 5),
                            bid_amt: rng.range(1, 9),
                            ask_amt: rng.range(1, 9),
                        },
                    }
                }
                85..=92 => EvB::Market {
                    inst: rng.usize(n_inst),
                    t,
                    kind: if rng.chance(1, 2) {
                        MktB::Candle
                    } else {
                        MktB::Liquidation
                    },
                },
                _ => EvB::Balance {
                    asset: rng.usize(n_assets),
                    t,
                    total: rng.range(0, 1000),
                },
            },
            _ => {
                // Requests / Commands / Audit share one mix with different weights
                let cmd_w = match cfg.focus {
                    Focus::Commands => 30,
                    Focus::Requests => 12,
                    _ => 10,
                };
                if w < cmd_w {
                    match rng.below(if cfg.focus == Focus::Commands { 10 } else { 4 }) {
                        0 => {
                            let n = 1 + rng.usize(3);
                            let mut v: Vec<usize> = (0..n)
                                .map(|_| new_ord(rng, &mut ords, &mut filled_of, cfg.faults))
                                .collect();
                            // C03 only: an operator re-uses the client order id of an order that is
                            // still tracked (cancel / replace with a deterministic id)
                            if cfg.focus == Focus::Requests && !live.is_empty() && rng.chance(1, 5) {
                                let o = *rng.pick(&live);
                                if !v.contains(&o) {
                                    v.push(o);
                                }
                            }
                            for o in &v {
                                if ords[*o].ex < n_ex && link_mode[ords[*o].ex] == Some(LinkMode::Healthy) {
                                    requested.push(*o);
                                }
                            }
                            EvB::CmdOpen { ords: v }
                        }
                        1 => {
                            let mut v: Vec<usize> = Vec::new();
                            for _ in 0..(1 + rng.usize(2)) {
                                if !live.is_empty() && rng.chance(4, 5) {
                                    let o = *rng.pick(&live);
                                    if !v.contains(&o) {
                                        v.push(o);
                                    }
                                } else if !ords.is_empty() {
                                    let o = rng.usize(ords.len());
                                    if !v.contains(&o) {
                                        v.push(o);
                                    }
                                }
                            }
                            if v.is_empty() {
                                EvB::CmdCancelOrders {
                                    filter: FilterB::None,
                                }
                            } else {
                                for o in &v {
                                    if live.contains(o) && !cancel_pending.contains(o) {
                                        cancel_pending.push(*o);
                                    }
                                }
                                EvB::CmdCancel { ords: v }
                            }
                        }
                        2 | 4 | 5 | 6 => {
                            let f = rand_filter(rng);
                            // planner does not know exactly which orders get cancelled; responses
                            // for live orders are drawn later from `live`
                            EvB::CmdCancelOrders { filter: f }
                        }
                        _ => EvB::CmdClosePositions {
                            filter: rand_filter(rng),
                        },
                    }
                } else if w < cmd_w + 8 {
                    let en = rng.chance(1, 2);
                    enabled = en;
                    EvB::Trading { enabled: en }
                } else if w < cmd_w + 30 {
                    // exchange responses / reports for orders the run itself created
                    if !requested.is_empty() && rng.chance(2, 3) {
                        let idx = rng.usize(requested.len());
                        let o = requested.remove(idx);
                        if rng.chance(1, 8) {
                            EvB::OrderReport {
                                ord: o,
                                rep: RepB::Failed,
                            }
                        } else {
                            live.push(o);
                            EvB::OrderReport {
                                ord: o,
                                rep: RepB::Open { t, filled: 0 },
                            }
                        }
                    } else if !cancel_pending.is_empty() && rng.chance(2, 3) {
                        let idx = rng.usize(cancel_pending.len());
                        let o = cancel_pending.remove(idx);
                        let ok = rng.chance(3, 4);
                        if ok {
                            live.retain(|x| *x != o);
                        }
                        EvB::CancelResp { ord: o, ok, t }
                    } else if !live.is_empty() {
                        let o = *rng.pick(&live);
                        match rng.below(6) {
                            0 => {
                                live.retain(|x| *x != o);
                                EvB::OrderReport {
                                    ord: o,
                                    rep: RepB::Cancelled { t },
                                }
                            }
                            1 => {
                                live.retain(|x| *x != o);
                                EvB::OrderReport {
                                    ord: o,
                                    rep: RepB::Expired,
                                }
                            }
                            _ => {
                                // partial / full fill: a Fill (trade) is followed by the report
                                if filled_of[o] < ords[o].qty {
                                    filled_of[o] += 1;
                                }
                                if filled_of[o] >= ords[o].qty {
                                    live.retain(|x| *x != o);
                                    if rng.chance(1, 2) {
                                        EvB::OrderReport {
                                            ord: o,
                                            rep: RepB::FullyFilled,
                                        }
                                    } else {
                                        EvB::OrderReport {
                                            ord: o,
                                            rep: RepB::Open {
                                                t,
                                                filled: filled_of[o],
                                            },
                                        }
                                    }
                                } else {
                                    EvB::OrderReport {
                                        ord: o,
                                        rep: RepB::Open {
                                            t,
                                            filled: filled_of[o],
                                        },
                                    }
                                }
                            }
                        }
                    } else {
                        EvB::Balance {
                            asset: rng.usize(n_assets),
                            t,
                            total: rng.range(0, 1000),
                        }
                    }
                } else if w < cmd_w + 45 {
                    EvB::Fill {
                        inst: rng.usize(n_inst),
                        buy: rng.chance(1, 2),
                        qty: 1 + rng.range(0, 3),
                        price: rng.range(50, 150),
                        fee_bp: *rng.pick(&[0i64, 10]),
                        t,
                    }
                } else if w < cmd_w + 50 {
                    if rng.chance(1, 2) {
                        EvB::MarketReconnecting { ex: rng.usize(n_ex) }
                    } else {
                        EvB::AccountReconnecting { ex: rng.usize(n_ex) }
                    }
                } else if w < cmd_w + 54 {
                    EvB::Balance {
                        asset: rng.usize(n_assets),
                        t,
                        total: rng.range(0, 1000),
                    }
                } else {
                    let inst = rng.usize(n_inst);
                    let kind = match rng.below(5) {
                        0 | 1 => MktB::Trade {
                            price: rng.range(50, 150),
                        },
                        2 | 3 => {
                            let bid = rng.range(50, 149);
                            MktB::L1 {
                                bid,
                                ask: bid + rng.range(1, 5),
                                bid_amt: rng.range(1, 9),
                                ask_amt: rng.range(1, 9),
                            }
                        }
                        _ => MktB::Candle,
                    };
                    EvB::Market { inst, t, kind }
                }
            }
        };

        // ---- what the strategy would answer during this step --------------------------------
        let algo_rate = match cfg.focus {
            Focus::Requests => 50,
            Focus::Audit => 35,
            Focus::Commands => 12,
            _ => 0,
        };
        let algo = if rng.below(100) < algo_rate {
            let mut a = AlgoB::default();
            for _ in 0..rng.usize(3) {
                let o = new_ord(rng, &mut ords, &mut filled_of, cfg.faults);
                a.opens.push(o);
            }
            for _ in 0..rng.usize(3) {
                if !live.is_empty() && rng.chance(3, 4) {
                    let o = *rng.pick(&live);
                    if !a.cancels.contains(&o) {
                        a.cancels.push(o);
                    }
                } else if !ords.is_empty() && rng.chance(1, 2) {
                    let o = rng.usize(ords.len());
                    if !a.cancels.contains(&o) && !a.opens.contains(&o) {
                        a.cancels.push(o);
                    }
                }
            }
            if cfg.faults {
                for o in &a.opens {
                    if rng.chance(1, 5) {
                        a.refuse_opens.push(*o);
                    }
                }
                for o in &a.cancels {
                    if rng.chance(1, 5) {
                        a.refuse_cancels.push(*o);
                    }
                }
            }
            // planner bookkeeping: approved opens on healthy links will get a response later
            let consumed = enabled
                && !matches!(ev, EvB::Shutdown);
            if consumed {
                for o in &a.opens {
                    if !a.refuse_opens.contains(o)
                        && ords[*o].ex < n_ex
                        && link_mode[ords[*o].ex] == Some(LinkMode::Healthy)
                    {
                        requested.push(*o);
                    }
                }
                for o in &a.cancels {
                    if !a.refuse_cancels.contains(o) && live.contains(o) && !cancel_pending.contains(o) {
                        cancel_pending.push(*o);
                    }
                }
            }
            Some(a)
        } else {
            None
        };
        // filtered cancel commands: believe every live order got a cancel request
        if let EvB::CmdCancelOrders { .. } = &ev {
            for o in live.clone() {
                if !cancel_pending.contains(&o) && rng.chance(1, 2) {
                    cancel_pending.push(o);
                }
            }
        }
        // Commands focus: sometimes repeat the same command back-to-back (before any answer)
        let repeat = cfg.focus == Focus::Commands
            && matches!(ev, EvB::CmdCancelOrders { .. } | EvB::CmdClosePositions { .. })
            && rng.chance(1, 3);
        steps.push(StepB {
            restore: matches!(cfg.focus, Focus::Connectivity | Focus::Pnl) && rng.chance(1, 12),
            flips,
            algo,
            ev: ev.clone(),
        });
        if repeat {
            steps.push(StepB {
                restore: false,
                flips: vec![],
                algo: None,
                ev,
            });
        }
        let _ = k;
    }
    if cfg.focus == Focus::Audit {
        match rng.below(4) {
            0 => {} // feed simply ends
            _ => steps.push(StepB {
                restore: false,
                flips: vec![],
                algo: None,
                ev: EvB::Shutdown,
            }),
        }
    } else if rng.chance(1, 4) {
        steps.push(StepB {
            restore: false,
            flips: vec![],
            algo: Some(AlgoB {
                opens: vec![],
                ..Default::default()
            }),
            ev: EvB::Shutdown,
        });
    }
    ScenarioB {
        via_streams: false,
        topo,
        trading_enabled_at_start,
        init_bal,
        ords,
        steps,
    }
}
