//! Shared world-building helpers: instruments, engine state, order / account message builders.

use barter::engine::state::{
    EngineState, instrument::data::DefaultInstrumentMarketData, trading::TradingState,
};
use barter_data::{
    books::Level,
    event::{DataKind, MarketEvent},
    subscription::{book::OrderBookL1, trade::PublicTrade},
};
use barter_execution::{
    AccountEvent, AccountEventKind, AccountSnapshot, InstrumentAccountSnapshot,
    balance::{AssetBalance, Balance},
    order::{
        Order, OrderKey, OrderKind, TimeInForce,
        id::{ClientOrderId, OrderId, StrategyId},
        request::{OrderRequestCancel, OrderRequestOpen, RequestCancel, RequestOpen},
        state::OrderState,
    },
    trade::{AssetFees, Trade, TradeId},
};
use barter_instrument::{
    Keyed, Side, Underlying,
    asset::{Asset, AssetIndex, ExchangeAsset, name::AssetNameInternal},
    exchange::{ExchangeId, ExchangeIndex},
    index::IndexedInstruments,
    instrument::{
        Instrument, InstrumentIndex,
        kind::{InstrumentKind, perpetual::PerpetualContract},
        name::{InstrumentNameExchange, InstrumentNameInternal},
        quote::InstrumentQuoteAsset,
    },
};
use barter_integration::snapshot::Snapshot;
use chrono::{DateTime, TimeZone, Utc};
use rust_decimal::Decimal;

/// Global data of every simulated engine: counts what the engine state was updated with, so that
/// "keeps updating its state" is observable for the user-defined global data too (the library's
/// `DefaultGlobalData` ignores every event).
#[derive(Debug, Clone, Default, PartialEq, serde::Serialize, serde::Deserialize)]
pub struct CountGlobal {
    pub market: u64,
    pub account: u64,
}
impl<'a> barter::engine::Processor<&'a MarketEvent<InstrumentIndex, DataKind>> for CountGlobal {
    type Audit = ();
    fn process(&mut self, _: &'a MarketEvent<InstrumentIndex, DataKind>) {
        self.market += 1;
    }
}
impl<'a> barter::engine::Processor<&'a AccountEvent> for CountGlobal {
    type Audit = ();
    fn process(&mut self, _: &'a AccountEvent) {
        self.account += 1;
    }
}

pub type St = EngineState<CountGlobal, DefaultInstrumentMarketData>;

/// Exchanges used by the simulators, in `ExchangeId` order (which is index order).
/// Their names sort differently (bithumb < bitvavo, while Bitvavo comes first as an id): nothing may
/// confuse the two orders. None of them is the id a client type falls back to (`Mock`, `Simulated`),
/// so a response labelled with a constant instead of the request's exchange stays visible.
pub const EXS: [ExchangeId; 4] = [
    ExchangeId::Bitvavo,
    ExchangeId::Bithumb,
    ExchangeId::Kraken,
    ExchangeId::Okx,
];

thread_local! {
    /// days added to the simulation epoch on this thread (0 = 2024-01-01)
    static EPOCH_SHIFT_DAYS: std::cell::Cell<i64> = const { std::cell::Cell::new(0) };
}

/// Moves the simulation epoch on this thread until dropped (e.g. far into the future, so that every
/// simulated timestamp lies after the machine's real clock).
pub struct EpochGuard(i64);
pub fn set_epoch_shift_days(days: i64) -> EpochGuard {
    EpochGuard(EPOCH_SHIFT_DAYS.with(|c| c.replace(days)))
}
impl Drop for EpochGuard {
    fn drop(&mut self) {
        EPOCH_SHIFT_DAYS.with(|c| c.set(self.0));
    }
}

pub fn epoch() -> DateTime<Utc> {
    Utc.with_ymd_and_hms(2024, 1, 1, 0, 0, 0).unwrap() + chrono::TimeDelta::days(EPOCH_SHIFT_DAYS.with(|c| c.get()))
}

thread_local! {
    /// microseconds per simulated time unit (1000 = the unit is a millisecond)
    static TICK_US: std::cell::Cell<i64> = const { std::cell::Cell::new(1000) };
}

/// Makes `ts` / `ms_of` count in units of `us` microseconds on this thread until dropped
/// (exchange timestamps closer together than a millisecond).
pub struct TickGuard(i64);
pub fn set_tick_us(us: i64) -> TickGuard {
    let prev = TICK_US.with(|c| c.replace(us.max(1)));
    TickGuard(prev)
}
impl Drop for TickGuard {
    fn drop(&mut self) {
        TICK_US.with(|c| c.set(self.0));
    }
}

/// Simulated exchange time: epoch + t time units (milliseconds unless `set_tick_us` says otherwise).
pub fn ts(ms: i64) -> DateTime<Utc> {
    epoch() + chrono::TimeDelta::microseconds(ms * TICK_US.with(|c| c.get()))
}

pub fn ms_of(t: DateTime<Utc>) -> i64 {
    (t - epoch()).num_microseconds().unwrap_or(i64::MAX).div_euclid(TICK_US.with(|c| c.get()))
}

pub fn dec(n: i64) -> Decimal {
    Decimal::from(n)
}

/// Decimal from (mantissa, scale)
pub fn decs(m: i64, scale: u32) -> Decimal {
    Decimal::new(m, scale)
}

pub fn asset(sym: &str) -> Asset {
    Asset {
        name_internal: AssetNameInternal::from(sym),
        name_exchange: sym.into(),
    }
}

pub fn spot(ex: ExchangeId, base: &str, quote: &str) -> Instrument<ExchangeId, Asset> {
    let name_exchange = InstrumentNameExchange::from(format!("{base}_{quote}"));
    let name_internal = InstrumentNameInternal::new_from_exchange(ex, name_exchange.clone());
    Instrument::new(
        ex,
        name_internal,
        name_exchange,
        Underlying::new(asset(base), asset(quote)),
        InstrumentQuoteAsset::UnderlyingQuote,
        InstrumentKind::Spot,
        None,
    )
}

pub fn perp(ex: ExchangeId, base: &str, quote: &str) -> Instrument<ExchangeId, Asset> {
    perp_settled(ex, base, quote, quote)
}

/// Perpetual whose settlement asset may differ from both underlyings.
pub fn perp_settled(ex: ExchangeId, base: &str, quote: &str, settle: &str) -> Instrument<ExchangeId, Asset> {
    let name_exchange = InstrumentNameExchange::from(format!("{base}_{quote}_perp"));
    let name_internal = InstrumentNameInternal::new_from_exchange(ex, name_exchange.clone());
    Instrument::new(
        ex,
        name_internal,
        name_exchange,
        Underlying::new(asset(base), asset(quote)),
        InstrumentQuoteAsset::UnderlyingQuote,
        InstrumentKind::Perpetual(PerpetualContract {
            contract_size: Decimal::ONE,
            settlement_asset: asset(settle),
        }),
        None,
    )
}

pub fn build_state(
    instruments: &IndexedInstruments,
    trading: TradingState,
    balances: &[(ExchangeId, &str, i64)],
) -> St {
    EngineState::builder(instruments, CountGlobal::default(), DefaultInstrumentMarketData::default)
        .time_engine_start(ts(0))
        .trading_state(trading)
        .balances(balances.iter().map(|(ex, sym, total)| {
            Keyed::new(
                ExchangeAsset::new(*ex, AssetNameInternal::from(*sym)),
                Balance::new(dec(*total), dec(*total)),
            )
        }))
        .build()
}

pub fn strategy_id() -> StrategyId {
    StrategyId::new("sim")
}

pub fn okey(ex: usize, inst: usize, cid: &str) -> OrderKey {
    OrderKey {
        exchange: ExchangeIndex(ex),
        instrument: InstrumentIndex(inst),
        strategy: strategy_id(),
        cid: ClientOrderId::new(cid),
    }
}

pub fn side_of(buy: bool) -> Side {
    if buy { Side::Buy } else { Side::Sell }
}

pub fn order_snapshot(
    key: OrderKey,
    buy: bool,
    price: Decimal,
    qty: Decimal,
    state: OrderState,
) -> Order<ExchangeIndex, InstrumentIndex, OrderState> {
    Order {
        key,
        side: side_of(buy),
        price,
        quantity: qty,
        kind: OrderKind::Limit,
        time_in_force: TimeInForce::GoodUntilCancelled { post_only: false },
        state,
    }
}

pub fn request_open(
    key: OrderKey,
    buy: bool,
    price: Decimal,
    qty: Decimal,
    kind: OrderKind,
) -> OrderRequestOpen {
    OrderRequestOpen {
        key,
        state: RequestOpen {
            side: side_of(buy),
            price,
            quantity: qty,
            kind,
            time_in_force: match kind {
                OrderKind::Market => TimeInForce::ImmediateOrCancel,
                OrderKind::Limit => TimeInForce::GoodUntilCancelled { post_only: false },
            },
        },
    }
}

pub fn request_cancel(key: OrderKey, id: Option<&str>) -> OrderRequestCancel {
    OrderRequestCancel {
        key,
        state: RequestCancel {
            id: id.map(OrderId::new),
        },
    }
}

pub fn ev_order_snapshot(
    ex: usize,
    order: Order<ExchangeIndex, InstrumentIndex, OrderState>,
) -> AccountEvent {
    AccountEvent {
        exchange: ExchangeIndex(ex),
        kind: AccountEventKind::OrderSnapshot(Snapshot(order)),
    }
}

pub fn ev_balance(ex: usize, asset: usize, total: Decimal, t_ms: i64) -> AccountEvent {
    AccountEvent {
        exchange: ExchangeIndex(ex),
        kind: AccountEventKind::BalanceSnapshot(Snapshot(AssetBalance {
            asset: AssetIndex(asset),
            balance: Balance::new(total, total),
            time_exchange: ts(t_ms),
        })),
    }
}

pub fn ev_full_snapshot(
    ex: usize,
    balances: Vec<AssetBalance<AssetIndex>>,
    orders: Vec<(usize, Order<ExchangeIndex, InstrumentIndex, OrderState>)>,
) -> AccountEvent {
    // group orders by instrument preserving first-seen order
    let mut instruments: Vec<InstrumentAccountSnapshot> = Vec::new();
    for (inst, order) in orders {
        if let Some(s) = instruments
            .iter_mut()
            .find(|s| s.instrument == InstrumentIndex(inst))
        {
            s.orders.push(order);
        } else {
            instruments.push(InstrumentAccountSnapshot {
                instrument: InstrumentIndex(inst),
                orders: vec![order],
            });
        }
    }
    AccountEvent {
        exchange: ExchangeIndex(ex),
        kind: AccountEventKind::Snapshot(AccountSnapshot {
            exchange: ExchangeIndex(ex),
            balances,
            instruments,
        }),
    }
}

#[allow(clippy::too_many_arguments)]
pub fn ev_trade(
    ex: usize,
    inst: usize,
    trade_id: &str,
    order_id: &str,
    buy: bool,
    price: Decimal,
    qty: Decimal,
    fees: Decimal,
    t_ms: i64,
) -> AccountEvent {
    AccountEvent {
        exchange: ExchangeIndex(ex),
        kind: AccountEventKind::Trade(Trade {
            id: TradeId::new(trade_id),
            order_id: OrderId::new(order_id),
            instrument: InstrumentIndex(inst),
            strategy: strategy_id(),
            time_exchange: ts(t_ms),
            side: side_of(buy),
            price,
            quantity: qty,
            fees: AssetFees::quote_fees(fees),
        }),
    }
}

pub fn mk_public_trade(
    ex: ExchangeId,
    inst: usize,
    t_ms: i64,
    price: f64,
    id: &str,
) -> MarketEvent<InstrumentIndex, DataKind> {
    MarketEvent {
        time_exchange: ts(t_ms),
        // as on a live feed, the local receive time is later than (and unrelated to) exchange time
        time_received: ts(t_ms + 3_600_000),
        exchange: ex,
        instrument: InstrumentIndex(inst),
        kind: DataKind::Trade(PublicTrade {
            id: id.to_string(),
            price,
            amount: 1.0,
            side: Side::Buy,
        }),
    }
}

pub fn mk_l1(
    ex: ExchangeId,
    inst: usize,
    t_ms: i64,
    bid: Option<(Decimal, Decimal)>,
    ask: Option<(Decimal, Decimal)>,
) -> MarketEvent<InstrumentIndex, DataKind> {
    MarketEvent {
        time_exchange: ts(t_ms),
        time_received: ts(t_ms + 3_600_000),
        exchange: ex,
        instrument: InstrumentIndex(inst),
        kind: DataKind::OrderBookL1(OrderBookL1 {
            last_update_time: ts(t_ms),
            best_bid: bid.map(|(p, a)| Level::new(p, a)),
            best_ask: ask.map(|(p, a)| Level::new(p, a)),
        }),
    }
}
