//! Sim F — audit stream + state replica (C10).
//!
//! The same scenario is executed three ways on three independently built real engines:
//!  (i)   step by step through `process_with_audit` (reference trace: tick k + engine state after k),
//!  (ii)  `sync_run_with_audit` with the simulator as the `Iterator` feed,
//!  (iii) `async_run_with_audit` on a paused current-thread tokio runtime with the simulator as the
//!        `Stream` feed (seeded virtual delays between items).
//! A real `StateReplicaManager` consumes the ticks through the simulator's audit network
//! (fault-free, or loss / duplication / adjacent swap / replay of an old prefix).

use crate::{
    engine_world::*,
    kit::{ExecCtx, Log, Outcome, RunStats, Sim, Violation, report, rng::Rng},
    sim_b::{ev_tag, simplify_b},
    world::*,
};
use barter::{
    execution::{AccountStreamEvent, builder::ExecutionBuildFutures},
    system::builder::{AuditMode, EngineFeedMode, SystemBuild},
};
use barter_data::streams::consumer::MarketStreamEvent;
use barter_instrument::instrument::InstrumentIndex;
use barter::engine::{
    EngineOutput,
    audit::{AuditTick, Auditor, EngineAudit, context::EngineContext, state_replica::StateReplicaManager},
    process_with_audit,
    run::{async_run_with_audit, sync_run_with_audit},
};
use barter_execution::order::state::ActiveOrderState;
use barter_instrument::exchange::ExchangeId;
use barter_integration::{
    FeedEnded, Terminal, Unrecoverable,
    channel::{ChannelTxDroppable, Tx},
};
use serde::{Deserialize, Serialize};
use std::{
    cell::RefCell,
    collections::VecDeque,
    rc::Rc,
    sync::{Arc, Mutex},
};

pub type Tick = AuditTick<EngineAudit<Ev, EngineOutput<u64, ExchangeId>>, EngineContext>;

#[derive(Clone, Debug)]
pub struct SimAuditTx {
    pub ticks: Arc<Mutex<Vec<Tick>>>,
    /// receiver "dropped" from this send index on
    pub closed_from: Option<usize>,
    pub sends: Arc<Mutex<usize>>,
}

#[derive(Debug)]
pub struct AuditTxClosed;
impl Unrecoverable for AuditTxClosed {
    fn is_unrecoverable(&self) -> bool {
        true
    }
}

impl Tx for SimAuditTx {
    type Item = Tick;
    type Error = AuditTxClosed;
    fn send<Item: Into<Self::Item>>(&self, item: Item) -> Result<(), Self::Error> {
        let mut n = self.sends.lock().unwrap();
        let k = *n;
        *n += 1;
        if self.closed_from.is_some_and(|c| k >= c) {
            return Err(AuditTxClosed);
        }
        self.ticks.lock().unwrap().push(item.into());
        Ok(())
    }
}

#[derive(Clone, Debug, Serialize, Deserialize, PartialEq)]
pub enum NetOp {
    Drop,
    Dup,
    SwapWithNext,
    /// re-deliver ticks [0, n) after this one
    ReplayPrefix(usize),
}

#[derive(Clone, Debug, Serialize, Deserialize)]
pub struct ScenarioF {
    pub base: ScenarioB,
    /// audit-network faults: (tick position, fault)
    pub net: Vec<(usize, NetOp)>,
    /// virtual delay (ms) before feed item k of the async runner (cycled)
    pub async_delays: Vec<u8>,
    pub tokio_seed: u64,
    pub audit_rx_drop_at: Option<usize>,
    /// a second consumer joins late: after this many events it is seeded with a fresh
    /// `audit_snapshot()` of the running engine and follows the records from there on
    #[serde(default)]
    pub late_join_at: Option<usize>,
    /// every simulated timestamp lies decades after the machine's real clock (a deterministic system
    /// must not care what the real time is)
    #[serde(default)]
    pub far_future: bool,
}

pub struct SimF;

struct Feed<'a> {
    w: &'a WorldB,
    sc: &'a ScenarioB,
    idx: usize,
    fed: Vec<Ev>,
    tags: Vec<String>,
    flips: u64,
}

impl<'a> Feed<'a> {
    fn new(w: &'a WorldB, sc: &'a ScenarioB) -> Self {
        Self {
            w,
            sc,
            idx: 0,
            fed: Vec::new(),
            tags: Vec::new(),
            flips: 0,
        }
    }
}

impl Iterator for Feed<'_> {
    type Item = Ev;
    fn next(&mut self) -> Option<Ev> {
        loop {
            let st = self.sc.steps.get(self.idx)?;
            self.idx += 1;
            if !self.w.ev_valid(self.sc, &st.ev) {
                continue;
            }
            self.flips += self.w.apply_flips(&st.flips) as u64;
            self.w.arm_script(self.sc, &st.algo);
            let ev = self.w.to_event(self.sc, &st.ev);
            self.fed.push(ev.clone());
            self.tags.push(ev_tag(&st.ev));
            return Some(ev);
        }
    }
}

type AuditKind = EngineAudit<Ev, EngineOutput<u64, ExchangeId>>;

fn snapshot_of(e: &mut SimEngine) -> AuditTick<St, EngineContext> {
    <SimEngine as Auditor<AuditKind>>::audit_snapshot(e)
}

/// Orders with in-flight request markers set aside.
fn norm_orders(state: &St) -> Vec<String> {
    let mut v = Vec::new();
    for (i, (_, ist)) in state.instruments.0.iter().enumerate() {
        for o in ist.orders.0.values() {
            let open = match &o.state {
                ActiveOrderState::OpenInFlight(_) => continue,
                ActiveOrderState::Open(open) => open.clone(),
                ActiveOrderState::CancelInFlight(c) => match &c.order {
                    Some(open) => open.clone(),
                    None => continue,
                },
            };
            v.push(format!(
                "{i}|{:?}|{:?}|{}|{}|{:?}|{:?}|{:?}",
                o.key, o.side, o.price, o.quantity, o.kind, o.time_in_force, open
            ));
        }
    }
    v.sort();
    v
}

fn without_orders(state: &St) -> St {
    let mut s = state.clone();
    for (_, ist) in s.instruments.0.iter_mut() {
        ist.orders = Default::default();
    }
    s
}

pub fn diff_states(engine: &St, replica: &St) -> Option<String> {
    if engine.trading != replica.trading {
        return Some(format!("trading state: engine {:?} replica {:?}", engine.trading, replica.trading));
    }
    if engine.connectivity != replica.connectivity {
        return Some(format!("connectivity: engine {:?} replica {:?}", engine.connectivity, replica.connectivity));
    }
    if engine.assets != replica.assets {
        return Some("balances / asset statistics differ".to_string());
    }
    for (i, ((_, a), (_, b))) in engine.instruments.0.iter().zip(replica.instruments.0.iter()).enumerate() {
        if a.position != b.position {
            return Some(format!("instrument {i} position: engine {:?} replica {:?}", a.position, b.position));
        }
        if a.data != b.data {
            return Some(format!("instrument {i} market data: engine {:?} replica {:?}", a.data, b.data));
        }
        if a.tear_sheet != b.tear_sheet {
            return Some(format!("instrument {i} tear sheet differs"));
        }
    }
    let (eo, ro) = (norm_orders(engine), norm_orders(replica));
    if eo != ro {
        return Some(format!("orders (in-flight markers set aside): engine {eo:?} replica {ro:?}"));
    }
    if without_orders(engine) != without_orders(replica) {
        return Some("engine state differs outside orders".to_string());
    }
    None
}

impl Sim for SimF {
    type Scenario = ScenarioF;

    fn name(&self) -> &'static str {
        "F:audit-stream+replica"
    }
    fn property(&self) -> &'static str {
        "C10"
    }
    fn sub_batches(&self) -> Vec<&'static str> {
        vec![
            "fault_free_audit_network",
            "fault_free_audit_network_with_link_faults",
            "faulty_audit_network(loss/dup/swap/replay)",
        ]
    }
    fn default_runs(&self) -> (u64, u64) {
        (200_000, 6_000_000)
    }

    fn plan(&self, rng: &mut Rng, sub: usize) -> ScenarioF {
        let faults = sub == 1 || (sub == 2 && rng.chance(1, 3));
        let base = plan_b(
            rng,
            &PlanCfg {
                focus: Focus::Audit,
                faults,
            },
        );
        let n = base.steps.len() + 1;
        let mut net = Vec::new();
        if sub == 2 {
            for _ in 0..(1 + rng.usize(4)) {
                let at = rng.usize(n);
                let op = match rng.below(4) {
                    0 => NetOp::Drop,
                    1 => NetOp::Dup,
                    2 => NetOp::SwapWithNext,
                    _ => NetOp::ReplayPrefix(1 + rng.usize(at + 1)),
                };
                net.push((at, op));
            }
        }
        let async_delays = (0..(1 + rng.usize(6)))
            .map(|_| *rng.pick(&[0u8, 0, 0, 1, 2, 50]))
            .collect();
        ScenarioF {
            base,
            net,
            async_delays,
            tokio_seed: rng.next_u64(),
            audit_rx_drop_at: if sub != 2 && rng.chance(1, 12) {
                Some(rng.usize(n))
            } else {
                None
            },
            late_join_at: if rng.chance(1, 4) { Some(rng.usize(n)) } else { None },
            far_future: rng.chance(1, 6),
        }
    }

    fn execute(&self, sc: &ScenarioF, ctx: &ExecCtx<'_>) -> Outcome {
        let pid = "C10";
        let _epoch = set_epoch_shift_days(if sc.far_future { 365 * 80 } else { 0 });
        let mut log = Log::new(ctx.keep_log);
        let mut stats = RunStats::default();
        let mut violation: Option<Violation> = None;

        macro_rules! fail {
            ($l:lifetime, $rule:expr, $step:expr, $($arg:tt)*) => {{
                violation = report(ctx, &mut stats, pid, $rule, $step, format!($($arg)*), None);
                if violation.is_some() {
                    break $l;
                }
            }};
        }

        #[allow(clippy::never_loop)]
        'run: loop {
            // ================= (i) reference: step by step =====================================
            let (w1, mut e1) = WorldB::build(&sc.base);
            let snapshot1: AuditTick<St, EngineContext> = snapshot_of(&mut e1);
            let mut ticks1: Vec<Tick> = Vec::new();
            let mut states1: Vec<St> = Vec::new();
            let mut feed1 = Feed::new(&w1, &sc.base);
            let mut terminated = false;
            while let Some(ev) = feed1.next() {
                let tick: Tick = process_with_audit(&mut e1, ev);
                let term = tick.event.is_terminal();
                ticks1.push(tick);
                states1.push(e1.state.clone());
                if term {
                    terminated = true;
                    break;
                }
            }
            if !terminated {
                let tick: Tick = <SimEngine as Auditor<AuditKind>>::audit(&mut e1, FeedEnded);
                ticks1.push(tick);
                states1.push(e1.state.clone());
                stats.probe("feed_ended_without_shutdown");
            }
            stats.steps += ticks1.len() as u64;
            for t in &feed1.tags {
                log.sig(t);
            }
            if feed1.flips > 0 {
                stats.fault("execution_link_fault");
            }
            // A1 on the reference trace itself: one tick per fed event, carrying it, consecutive
            let seq0 = snapshot1.context.sequence.value();
            for (k, tick) in ticks1.iter().enumerate() {
                if tick.context.sequence.value() != seq0 + 1 + k as u64 {
                    fail!('run, "A1_sequence_gap", k, "tick {k} has sequence {} after snapshot sequence {seq0}", tick.context.sequence.value());
                }
                match &tick.event {
                    EngineAudit::Process(pa) => {
                        if feed1.fed.get(k) != Some(&pa.event) {
                            fail!('run, "A1_tick_event_mismatch", k, "tick {k} does not carry the {k}-th processed event: {:?}", pa.event);
                        }
                    }
                    EngineAudit::FeedEnded => {
                        if k + 1 != ticks1.len() || terminated {
                            fail!('run, "A1_terminal_tick", k, "FeedEnded tick at position {k} of {}", ticks1.len());
                        }
                    }
                }
                let is_last = k + 1 == ticks1.len();
                if tick.event.is_terminal() != is_last {
                    fail!('run, "A1_terminal_tick", k, "tick {k} terminal={} but is_last={is_last}", tick.event.is_terminal());
                }
            }
            if let Some(EngineAudit::Process(pa)) = ticks1.last().map(|t| &t.event) {
                if !pa.errors.is_empty() {
                    stats.probe("terminal_fatal_error_tick");
                } else {
                    stats.probe("terminal_shutdown_tick");
                }
            }
            log.line(|| format!("reference: {} ticks, terminated_by_event={terminated}", ticks1.len()));

            // ================= (ii) sync runner ================================================
            let (w2, mut e2) = WorldB::build(&sc.base);
            let snapshot2: AuditTick<St, EngineContext> = snapshot_of(&mut e2);
            let cap2 = SimAuditTx {
                ticks: Arc::new(Mutex::new(Vec::new())),
                closed_from: sc.audit_rx_drop_at,
                sends: Arc::new(Mutex::new(0)),
            };
            let mut tx2 = ChannelTxDroppable::new(cap2.clone());
            let mut feed2 = Feed::new(&w2, &sc.base);
            let last2 = sync_run_with_audit(&mut feed2, &mut e2, &mut tx2);
            let ticks2 = cap2.ticks.lock().unwrap().clone();
            if sc.audit_rx_drop_at.is_some() {
                stats.fault("audit_receiver_dropped");
            }
            if snapshot2 != snapshot1 {
                fail!('run, "A1_snapshot", 0, "sync runner: initial snapshot tick differs from reference");
            }
            let expect_n = match sc.audit_rx_drop_at {
                Some(c) => c.min(ticks1.len()),
                None => ticks1.len(),
            };
            if ticks2.len() != expect_n || ticks2[..] != ticks1[..expect_n] {
                let first_bad = ticks2.iter().zip(ticks1.iter()).position(|(a, b)| a != b);
                fail!(
                    'run,
                    "A1_sync_runner_ticks",
                    first_bad.unwrap_or(ticks2.len().min(ticks1.len())),
                    "sync_run_with_audit emitted {} ticks, reference has {} (expected {} delivered); first differing tick {:?}; runner last sequences {:?}, reference {:?}",
                    ticks2.len(), ticks1.len(), expect_n, first_bad,
                    ticks2.iter().rev().take(3).map(|t| t.context.sequence.value()).collect::<Vec<_>>(),
                    ticks1.iter().rev().take(3).map(|t| t.context.sequence.value()).collect::<Vec<_>>()
                );
            }
            if Some(&last2) != ticks1.last().map(|t| &t.event) {
                fail!('run, "A1_sync_runner_ticks", ticks1.len() - 1, "sync runner returned a different final audit than the reference");
            }
            if e2.state != e1.state {
                fail!('run, "A1_sync_runner_state", ticks1.len() - 1, "engine state after sync_run_with_audit differs from step-by-step processing (audit receiver dropped at {:?})", sc.audit_rx_drop_at);
            }
            if feed2.idx < sc.base.steps.len() && !terminated {
                fail!('run, "A1_sync_runner_ticks", feed2.idx, "sync runner stopped consuming the feed early");
            }

            // ================= (iii) async runner on the paused runtime =========================
            let (w3, mut e3) = WorldB::build(&sc.base);
            let snapshot3: AuditTick<St, EngineContext> = snapshot_of(&mut e3);
            let cap3 = SimAuditTx {
                ticks: Arc::new(Mutex::new(Vec::new())),
                closed_from: sc.audit_rx_drop_at,
                sends: Arc::new(Mutex::new(0)),
            };
            let mut tx3 = ChannelTxDroppable::new(cap3.clone());
            let rt = tokio::runtime::Builder::new_current_thread()
                .enable_time()
                .start_paused(true)
                .rng_seed(tokio::runtime::RngSeed::from_bytes(&sc.tokio_seed.to_le_bytes()))
                .build()
                .expect("runtime");
            let delays = sc.async_delays.clone();
            let (last3, virt_ms) = rt.block_on(async {
                let start = tokio::time::Instant::now();
                let feed3 = Feed::new(&w3, &sc.base);
                // the simulator is the Stream: item k becomes available after a seeded virtual delay
                let state = (feed3, 0usize);
                let stream = futures::stream::unfold(state, |(mut feed, k)| {
                    let d = if delays.is_empty() { 0 } else { delays[k % delays.len()] };
                    async move {
                        if d > 0 {
                            tokio::time::sleep(std::time::Duration::from_millis(d as u64)).await;
                        } else {
                            tokio::task::yield_now().await;
                        }
                        let ev = feed.next()?;
                        Some((ev, (feed, k + 1)))
                    }
                });
                let mut stream = Box::pin(stream);
                let last = async_run_with_audit(&mut stream, &mut e3, &mut tx3).await;
                (last, start.elapsed().as_millis() as u64)
            });
            stats.sim_time_ms += virt_ms + e1.clock.now_ms.max(0) as u64;
            let ticks3 = cap3.ticks.lock().unwrap().clone();
            if snapshot3 != snapshot1 {
                fail!('run, "A1_snapshot", 0, "async runner: initial snapshot tick differs from reference");
            }
            if ticks3.len() != expect_n || ticks3[..] != ticks1[..expect_n] {
                let first_bad = ticks3.iter().zip(ticks1.iter()).position(|(a, b)| a != b);
                fail!(
                    'run,
                    "A1_async_runner_ticks",
                    first_bad.unwrap_or(ticks3.len().min(ticks1.len())),
                    "async_run_with_audit emitted {} ticks, reference has {} (expected {} delivered); first differing tick {:?}",
                    ticks3.len(), ticks1.len(), expect_n, first_bad
                );
            }
            if Some(&last3) != ticks1.last().map(|t| &t.event) {
                fail!('run, "A1_async_runner_ticks", ticks1.len() - 1, "async runner returned a different final audit than the reference");
            }
            if e3.state != e1.state {
                fail!('run, "A1_async_runner_state", ticks1.len() - 1, "engine state after async_run_with_audit differs from step-by-step processing");
            }

            // ================= (iv) the real System: SystemBuild::init, stream mode, audit on ======
            // Events go in through System::feed_tx one at a time (the script is armed right before
            // each send, the tick is awaited on the audit channel the System hands out).
            if sc.audit_rx_drop_at.is_none() {
                let (w4, e4) = WorldB::build(&sc.base);
                let rt4 = tokio::runtime::Builder::new_current_thread()
                    .enable_time()
                    .start_paused(true)
                    .rng_seed(tokio::runtime::RngSeed::from_bytes(&sc.tokio_seed.to_le_bytes()))
                    .build()
                    .expect("runtime");
                #[allow(clippy::type_complexity)]
                let r4: Result<(AuditTick<St, EngineContext>, Vec<Tick>, St, Option<Tick>), String> = rt4.block_on(async {
                    let build = SystemBuild::<SimEngine, Ev, _>::new(
                        e4,
                        EngineFeedMode::Stream,
                        AuditMode::Enabled,
                        futures::stream::pending::<MarketStreamEvent<InstrumentIndex, barter_data::event::DataKind>>(),
                        barter_integration::channel::Channel::<AccountStreamEvent>::new(),
                        ExecutionBuildFutures {
                            mock_exchange_run_futures: vec![],
                            execution_init_futures: vec![],
                        },
                    );
                    let mut system = build.init().await.map_err(|e| format!("SystemBuild::init failed: {e}"))?;
                    let audit = system.take_audit().ok_or("System built with AuditMode::Enabled has no audit stream")?;
                    let snapshot4 = audit.snapshot;
                    let mut updates = audit.updates;
                    let mut feed4 = Feed::new(&w4, &sc.base);
                    let mut ticks4: Vec<Tick> = Vec::new();
                    let mut ended = false;
                    while let Some(ev) = feed4.next() {
                        if barter_integration::channel::Tx::send(&system.feed_tx, ev).is_err() {
                            return Err("engine dropped its feed receiver before the feed ended".to_string());
                        }
                        let tick = tokio::time::timeout(std::time::Duration::from_secs(3600), updates.rx.recv())
                            .await
                            .map_err(|_| format!("no audit tick for event {} within 1 h of virtual time", ticks4.len()))?
                            .ok_or("audit channel closed before the terminal tick")?;
                        let term = tick.event.is_terminal();
                        ticks4.push(tick);
                        if term {
                            ended = true;
                            break;
                        }
                    }
                    if ended {
                        let (engine, _last) = system.engine.await.map_err(|e| format!("engine task failed: {e}"))?;
                        Ok((snapshot4, ticks4, engine.state, None))
                    } else {
                        // feed exhausted without a terminal event: the System shuts the engine down
                        let (engine, _last) = system.shutdown().await.map_err(|e| format!("System::shutdown failed: {e}"))?;
                        let extra = tokio::time::timeout(std::time::Duration::from_secs(3600), updates.rx.recv()).await.ok().flatten();
                        Ok((snapshot4, ticks4, engine.state, extra))
                    }
                });
                drop(rt4);
                match r4 {
                    Err(e) => {
                        fail!('run, "A1_system_runner", 0, "{e}");
                    }
                    Ok((snapshot4, ticks4, state4, extra)) => {
                        stats.probe("run_through_real_system_builder");
                        if snapshot4 != snapshot1 {
                            fail!('run, "A1_snapshot", 0, "System: the audit snapshot handed out by SystemBuild::init differs from the engine's initial state / sequence");
                        }
                        // the reference ends with a FeedEnded tick when no terminal event was fed
                        let n_cmp = if terminated { ticks1.len() } else { ticks1.len() - 1 };
                        if ticks4.len() != n_cmp || ticks4[..] != ticks1[..n_cmp] {
                            let first_bad = ticks4.iter().zip(ticks1.iter()).position(|(a, b)| a != b);
                            fail!('run, "A1_system_runner", first_bad.unwrap_or(ticks4.len().min(n_cmp)), "System (stream mode, audit enabled) emitted {} ticks, reference has {n_cmp}; first differing tick {:?}", ticks4.len(), first_bad);
                        }
                        if !terminated {
                            match &extra {
                                Some(t) if t.event.is_terminal() && t.context.sequence.value() == seq0 + 1 + n_cmp as u64 => {}
                                other => {
                                    fail!('run, "A1_terminal_tick", n_cmp, "System::shutdown: final audit record is {:?}, expected a terminal shutdown record with sequence {}", other.as_ref().map(|t| (t.context.sequence.value(), t.event.is_terminal())), seq0 + 1 + n_cmp as u64);
                                }
                            }
                        }
                        if state4 != e1.state {
                            fail!('run, "A1_system_runner", n_cmp, "engine state returned by the System differs from step-by-step processing");
                        }
                    }
                }
            }

            // ================= (v) a consumer that joins late ==================================
            // An independent engine processes the same feed; after `late_join_at` events a snapshot is
            // taken from it (orders may be in flight, cancels pending, positions open at that moment)
            // and a replica seeded with that snapshot follows the remaining records.
            if let Some(join) = sc.late_join_at {
                let (w5, mut e5) = WorldB::build(&sc.base);
                let mut feed5 = Feed::new(&w5, &sc.base);
                let mut k = 0usize;
                let mut joined: Option<(StateReplicaManager<St, std::iter::FromFn<Box<dyn FnMut() -> Option<Tick>>>>, Rc<RefCell<VecDeque<Tick>>>)> = None;
                while let Some(ev) = feed5.next() {
                    if k == join && joined.is_none() {
                        let snap = snapshot_of(&mut e5);
                        let queue: Rc<RefCell<VecDeque<Tick>>> = Rc::new(RefCell::new(VecDeque::new()));
                        let q2 = queue.clone();
                        let f: Box<dyn FnMut() -> Option<Tick>> = Box::new(move || q2.borrow_mut().pop_front());
                        joined = Some((StateReplicaManager::new(snap, std::iter::from_fn(f)), queue));
                        stats.probe("replica_seeded_from_mid_run_snapshot");
                    }
                    let tick: Tick = process_with_audit(&mut e5, ev);
                    let term = tick.event.is_terminal();
                    if let Some((replica, queue)) = joined.as_mut() {
                        queue.borrow_mut().push_back(tick);
                        if let Err(e) = replica.run::<u64, ExchangeId>() {
                            fail!('run, "A2_replica_rejected_contiguous_tick", k, "late-joining replica (snapshot after {join} events) rejected the record of event {k}: {e}");
                        }
                        if let Some(d) = diff_states(&e5.state, replica.replica_engine_state()) {
                            fail!('run, "A2_replica_diverged", k, "late-joining replica (snapshot after {join} events) differs from the engine after event {k}: {d}");
                        }
                    }
                    k += 1;
                    if term {
                        break;
                    }
                }
            }

            // ================= replica behind the audit network ================================
            // delivery order after network faults
            let mut delivery: Vec<usize> = (0..ticks1.len()).collect();
            {
                // apply faults on positions of the original order
                let mut out: Vec<usize> = Vec::new();
                let mut k = 0;
                while k < delivery.len() {
                    let ops: Vec<&NetOp> = sc.net.iter().filter(|(at, _)| *at == k).map(|(_, o)| o).collect();
                    let mut dropped = false;
                    let mut extra: Vec<usize> = Vec::new();
                    let mut swap = false;
                    for op in ops {
                        match op {
                            NetOp::Drop => dropped = true,
                            NetOp::Dup => extra.push(k),
                            NetOp::SwapWithNext => swap = true,
                            NetOp::ReplayPrefix(n) => extra.extend(0..(*n).min(k + 1)),
                        }
                    }
                    if swap && k + 1 < delivery.len() {
                        out.push(k + 1);
                        if !dropped {
                            out.push(k);
                        }
                        out.extend(extra);
                        k += 2;
                        stats.fault("audit_tick_swap");
                        continue;
                    }
                    if !dropped {
                        out.push(k);
                    } else {
                        stats.fault("audit_tick_loss");
                    }
                    if !extra.is_empty() {
                        stats.fault("audit_tick_duplicate_or_replay");
                    }
                    out.extend(extra);
                    k += 1;
                }
                delivery = out;
            }
            let queue: Rc<RefCell<VecDeque<Tick>>> = Rc::new(RefCell::new(VecDeque::new()));
            let q2 = queue.clone();
            let updates = std::iter::from_fn(move || q2.borrow_mut().pop_front());
            let mut replica = StateReplicaManager::new(snapshot1.clone(), updates);
            let mut applied: Option<usize> = None; // index into ticks1 of the last applied tick
            let faulty_net = !sc.net.is_empty();
            for (pos, k) in delivery.iter().enumerate() {
                let k = *k;
                queue.borrow_mut().push_back(ticks1[k].clone());
                let before = replica.replica_engine_state().clone();
                let res = replica.run::<u64, ExchangeId>();
                let next_expected = applied.map_or(0, |a| a + 1);
                log.line(|| format!("replica: delivered tick index {k} (position {pos}), result {:?}", res.as_ref().map(|_| ()).map_err(|e| e.len())));
                if k < next_expected {
                    // repeated / older record: skipped, nothing changes
                    stats.probe("old_tick_skipped");
                    if res.is_err() || *replica.replica_engine_state() != before {
                        fail!('run, "A3_old_tick_not_skipped", k, "tick {k} (older than last applied {:?}) was not skipped: result {:?}", applied, res);
                    }
                } else if k == next_expected {
                    if let Err(e) = &res {
                        fail!('run, "A2_replica_rejected_contiguous_tick", k, "replica rejected in-order tick {k}: {e}");
                    }
                    applied = Some(k);
                    let is_feed_ended = matches!(ticks1[k].event, EngineAudit::FeedEnded);
                    if let Some(d) = diff_states(&states1[k], replica.replica_engine_state()) {
                        fail!('run, "A2_replica_diverged", k, "after tick {k} ({}) replica != engine: {d}", feed1.tags.get(k).cloned().unwrap_or_else(|| "feed-ended".into()));
                    }
                    if !is_feed_ended && replica.state_replica.context != ticks1[k].context {
                        fail!('run, "A2_replica_context", k, "replica context {:?} after applying tick with context {:?}", replica.state_replica.context, ticks1[k].context);
                    }
                    if ticks1[k].event.is_terminal() {
                        break;
                    }
                } else {
                    // gap: must be rejected and not applied
                    stats.probe("gap_rejected");
                    if matches!(ticks1[k].event, EngineAudit::FeedEnded) {
                        // a FeedEnded record carries nothing to apply; the replica simply stops
                        if *replica.replica_engine_state() != before {
                            fail!('run, "A3_gap_applied", k, "state changed by a FeedEnded record after a gap");
                        }
                        break;
                    }
                    if res.is_ok() || *replica.replica_engine_state() != before {
                        fail!('run, "A3_gap_applied", k, "tick {k} delivered while next expected was {next_expected}: result {:?}, state changed: {}", res, *replica.replica_engine_state() != before);
                    }
                    break;
                }
            }
            if !faulty_net && applied != Some(ticks1.len() - 1) {
                fail!('run, "A2_replica_incomplete", ticks1.len() - 1, "fault-free audit network but replica applied up to {:?} of {}", applied, ticks1.len());
            }
            break;
        }
        Outcome {
            violation,
            stats,
            log_hash: log.hash(),
            signature: log.signature(),
            log: log.lines,
        }
    }

    fn shrink_len(&self, sc: &ScenarioF) -> usize {
        sc.base.steps.len() + sc.net.len()
    }
    fn shrink_remove(&self, sc: &ScenarioF, from: usize, to: usize) -> ScenarioF {
        let mut s = sc.clone();
        let n = s.base.steps.len();
        // net faults are indexed after the steps
        let (nf, nt) = (from.max(n) - n, to.max(n) - n);
        if nt > nf {
            s.net.drain(nf..nt.min(s.net.len()));
        }
        if from < n {
            s.base.steps.drain(from..to.min(n));
        }
        s
    }
    fn simplify(&self, sc: &ScenarioF) -> Vec<ScenarioF> {
        let mut out = Vec::new();
        if sc.audit_rx_drop_at.is_some() {
            let mut s = sc.clone();
            s.audit_rx_drop_at = None;
            out.push(s);
        }
        if sc.async_delays.iter().any(|d| *d != 0) {
            let mut s = sc.clone();
            s.async_delays = vec![0];
            out.push(s);
        }
        for b in simplify_b(&sc.base) {
            let mut s = sc.clone();
            s.base = b;
            out.push(s);
        }
        out
    }

    fn rule_text(&self) -> String {
        "each run = one PRNG-planned engine history (market / account items incl. fills, reconnect notices, trading toggles, the four commands, scripted strategy output, execution-link faults; ended by shutdown, end of feed or a fatal link error) executed three times on independent real engines: step by step (reference), sync_run_with_audit (simulator = Iterator feed) and async_run_with_audit on a paused tokio runtime (simulator = Stream feed with seeded virtual delays). A1: one tick per processed event carrying that event, sequences snapshot+1.. without gap or repeat, last tick terminal and nothing after it, runners tick-for-tick identical to the reference and same final engine state, also when the audit receiver is dropped mid-run. A2: a real StateReplicaManager fed through a fault-free audit network equals the engine after every tick (orders compared with in-flight markers set aside). A3: with tick loss / duplication / adjacent swap / replay of an old prefix, older ticks are skipped without effect and a gap is rejected without applying anything. distinct = distinct event-kind skeleton; non-trivial = a fault (link fault, audit-network fault or dropped audit receiver) fired AND a probe (fatal-error tick, feed end, old tick skipped, gap rejected) hit".into()
    }
    fn components_real(&self) -> Vec<&'static str> {
        vec![
            "barter::engine::{Engine::process, process_with_audit}",
            "barter::engine::audit::{Auditor impl, AuditTick, EngineAudit, ProcessAudit}",
            "barter::engine::run::{sync_run_with_audit, async_run_with_audit}",
            "barter::system::builder::SystemBuild::{new, init} (stream mode, audit enabled), barter::system::System::{feed_tx, take_audit, shutdown}",
            "barter::engine::audit::state_replica::StateReplicaManager::{new, run, update_from_event}",
            "barter_integration::channel::ChannelTxDroppable",
            "barter::engine::state::EngineState (engine and replica)",
        ]
    }
    fn components_stub(&self) -> Vec<&'static str> {
        vec![
            "engine feed (Iterator / Stream owned by the simulator)",
            "audit transport (SimAuditTx) and audit network (loss, dup, swap, replay)",
            "execution links, strategy, risk manager, clock (as Sim B)",
        ]
    }
    fn fault_kinds(&self) -> Vec<&'static str> {
        vec![
            "execution_link_fault",
            "audit_receiver_dropped",
            "audit_tick_loss",
            "audit_tick_duplicate_or_replay",
            "audit_tick_swap",
        ]
    }
    fn probe_kinds(&self) -> Vec<&'static str> {
        vec![
            "feed_ended_without_shutdown",
            "replica_seeded_from_mid_run_snapshot",
            "terminal_fatal_error_tick",
            "terminal_shutdown_tick",
            "old_tick_skipped",
            "gap_rejected",
            "run_through_real_system_builder",
        ]
    }
    fn assumptions(&self) -> Vec<String> {
        vec![
            "client order ids unique per order; scripted strategies only issue requests (no state mutation in disconnect / trading-disabled callbacks); default instrument and global data".into(),
            "the reference trace is produced by the real process_with_audit; its own tick/event/sequence structure is checked independently against the fed events".into(),
        ]
    }
}
