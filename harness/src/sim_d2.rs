//! Sim D2 — Binance L2 depth streams over a simulated socket (C06).
//!
//! Real: `WebSocketParser`, `ExchangeStream::{new, poll_next}`, `Binance{Spot,FuturesUsd}
//! OrderBooksL2Transformer::{init, transform}` + sequencers, snapshot / update JSON deserialisers
//! and `MarketEvent` conversions, `OrderBook::update` / `OrderBookSide::upsert`,
//! `DataError::is_terminal`, `init_reconnecting_stream` + backoff + termination-on-error +
//! reconnection events + error handler, `OrderBookL2Manager::run` over `OrderBookMapMulti`.
//! Stub: the exchange (seeded book process, REST snapshot JSON, depth-event JSON frames) and the
//! socket (drop / duplicate / swap / replay old prefix / early-late start / EOF / harmless junk).
//! Not run: the body of `MarketStream::init` (TCP/TLS connect, subscribe handshake, REST fetch).

use crate::{
    kit::{ExecCtx, Log, Outcome, RunStats, Sim, Violation, report, rng::Rng},
    sim_client::paused_runtime,
};
use barter_data::{
    books::{
        Level, OrderBook,
        manager::OrderBookL2Manager,
        map::{OrderBookMap, OrderBookMapMulti},
    },
    error::DataError,
    event::MarketEvent,
    exchange::binance::{
        book::l2::BinanceOrderBookL2Snapshot,
        futures::{BinanceFuturesUsd, l2::BinanceFuturesUsdOrderBooksL2Transformer},
        spot::{BinanceSpot, l2::BinanceSpotOrderBooksL2Transformer},
    },
    streams::{
        consumer::{MarketStreamEvent, StreamKey},
        reconnect::{
            Event,
            stream::{ReconnectingStream, ReconnectionBackoffPolicy, init_reconnecting_stream},
        },
    },
    subscription::{
        Map,
        book::{OrderBookEvent, OrderBooksL2},
    },
    transformer::ExchangeTransformer,
};
use barter_instrument::exchange::ExchangeId;
use barter_integration::{
    protocol::websocket::{WebSocketParser, WsError, WsMessage},
    stream::ExchangeStream,
    subscription::SubscriptionId,
};
use fnv::FnvHashMap;
use futures::{Stream, StreamExt};
use parking_lot::RwLock;
use rust_decimal::Decimal;
use serde::{Deserialize, Serialize};
use std::{
    collections::{BTreeMap, VecDeque},
    pin::Pin,
    sync::{Arc, Mutex},
    task::{Context, Poll},
    time::Duration,
};

const SYMBOLS: [&str; 3] = ["BTCUSDT", "ETHUSDT", "SOLUSDT"];

#[derive(Clone, Debug, Serialize, Deserialize, PartialEq)]
pub struct InstD2 {
    /// atomic book changes, ids 1..=N: (is_bid, price, qty) ; qty 0 deletes the level
    pub changes: Vec<(bool, i64, i64)>,
    /// depth events: last id of each event, ascending, last == N
    pub cuts: Vec<u64>,
}

#[derive(Clone, Debug, Serialize, Deserialize, PartialEq)]
pub enum FrameD2 {
    /// depth event k (0-based) of instrument inst
    Ev { inst: usize, k: usize },
    Malformed,
    WsErr,
    Ping,
    Pong,
    Close,
    UnknownSymbol,
}

#[derive(Clone, Debug, Serialize, Deserialize, PartialEq)]
pub struct ConnD2 {
    /// this (re)initialisation attempt fails
    pub init_fail: bool,
    /// REST snapshot id per instrument
    pub snap: Vec<u64>,
    /// frames in delivery order (after network perturbation), with virtual delay before each
    pub frames: Vec<(u64, FrameD2, Option<String>)>,
    /// this many leading frames arrived while the subscription was still being validated: they go
    /// through `process_buffered_events` before the stream starts (see `effective_buffered`)
    #[serde(default)]
    pub n_buffered: usize,
}

/// How many of the leading frames are really treated as handshake-buffered: stale depth events
/// and harmless junk, optionally closed by one event that breaks the chain. A buffered event that
/// *continues* the chain is never generated: `MarketStream::init` queues buffered outputs ahead of
/// the snapshot event (DESIGN.md section 7, noted but outside the claimed set).
fn effective_buffered(conn: &ConnD2, insts: &[InstD2], futures: bool) -> (usize, bool) {
    let mut n = 0;
    for (_, f, _) in conn.frames.iter().take(conn.n_buffered) {
        match f {
            FrameD2::Malformed | FrameD2::UnknownSymbol | FrameD2::Ping | FrameD2::Pong => n += 1,
            FrameD2::Ev { inst, k } => match classify(futures, conn.snap[*inst], true, ev_range(&insts[*inst], *k)) {
                Class::Old => n += 1,
                Class::Break => return (n + 1, true),
                Class::Chains => return (n, false),
            },
            _ => return (n, false),
        }
    }
    (n, false)
}

fn frame_msg(f: &FrameD2, insts: &[InstD2], futures: bool) -> Result<WsMessage, WsError> {
    match f {
        FrameD2::Ev { inst, k } => match insts.get(*inst) {
            Some(i) if *k < i.cuts.len() => Ok(WsMessage::text(ev_json(i, SYMBOLS[*inst], *k, futures))),
            _ => Ok(WsMessage::text("{}".to_string())),
        },
        FrameD2::Malformed => Ok(WsMessage::text("{\"e\":\"depthUpdate\",\"s\":".to_string())),
        FrameD2::WsErr => Err(WsError::ConnectionClosed),
        FrameD2::Ping => Ok(WsMessage::Ping(Vec::new().into())),
        FrameD2::Pong => Ok(WsMessage::Pong(Vec::new().into())),
        FrameD2::Close => Ok(WsMessage::Close(None)),
        FrameD2::UnknownSymbol => Ok(WsMessage::text(
            if futures {
                "{\"e\":\"depthUpdate\",\"E\":1700000000000,\"T\":1700000000000,\"s\":\"DOGEUSDT\",\"U\":1,\"u\":2,\"pu\":0,\"b\":[[\"1.50\",\"1\"]],\"a\":[]}"
            } else {
                "{\"e\":\"depthUpdate\",\"E\":1700000000000,\"s\":\"DOGEUSDT\",\"U\":1,\"u\":2,\"b\":[[\"1.50\",\"1\"]],\"a\":[]}"
            }
            .to_string(),
        )),
    }
}

#[derive(Clone, Debug, Serialize, Deserialize)]
pub struct ScenarioD2 {
    /// slow consumer: while the manager applies the n-th item another (real) thread holds a read
    /// lock on that instrument's shared book for a moment
    #[serde(default)]
    pub reader_at: Option<usize>,
    /// the consumer maintains a single book (instrument 0) with `OrderBookMapSingle` although the
    /// connection carries several instruments: the others' events must pass it by
    #[serde(default)]
    pub single_map: bool,
    pub futures: bool,
    pub insts: Vec<InstD2>,
    pub conns: Vec<ConnD2>,
    pub tokio_seed: u64,
}

pub struct SimD2;

/// key of the book another connection feeds
const BYSTANDER: usize = 99;

type Side = BTreeMap<i64, i64>;

fn truth_at(inst: &InstD2, id: u64) -> (Side, Side) {
    let (mut b, mut a) = (Side::new(), Side::new());
    for (is_bid, p, q) in inst.changes.iter().take(id as usize) {
        if *q < 0 {
            // an update id the venue used up without changing this book
            continue;
        }
        let side = if *is_bid { &mut b } else { &mut a };
        if *q == 0 {
            side.remove(p);
        } else {
            side.insert(*p, *q);
        }
    }
    (b, a)
}

/// (U, u, pu) of depth event k
fn ev_range(inst: &InstD2, k: usize) -> (u64, u64, u64) {
    let u = inst.cuts[k];
    let prev = if k == 0 { 0 } else { inst.cuts[k - 1] };
    (prev + 1, u, prev)
}

fn levels_json(side: &[(i64, i64)]) -> String {
    let v: Vec<String> = side.iter().map(|(p, q)| format!("[\"{p}.50\",\"{q}\"]")).collect();
    format!("[{}]", v.join(","))
}

/// Depth event k rendered as the venue's JSON text frame: final absolute quantity per touched price.
fn ev_json(inst: &InstD2, sym: &str, k: usize, futures: bool) -> String {
    let (big_u, u, pu) = ev_range(inst, k);
    let (mut b, mut a): (BTreeMap<i64, i64>, BTreeMap<i64, i64>) = Default::default();
    for (is_bid, p, q) in &inst.changes[(big_u - 1) as usize..u as usize] {
        if *q < 0 {
            continue;
        }
        if *is_bid {
            b.insert(*p, *q);
        } else {
            a.insert(*p, *q);
        }
    }
    // unsorted on purpose (the venue does not promise an order inside an update)
    let bv: Vec<(i64, i64)> = b.into_iter().rev().collect();
    let av: Vec<(i64, i64)> = a.into_iter().rev().collect();
    let e = 1_700_000_000_000u64 + u;
    if futures {
        format!(
            "{{\"e\":\"depthUpdate\",\"E\":{e},\"T\":{e},\"s\":\"{sym}\",\"U\":{big_u},\"u\":{u},\"pu\":{pu},\"b\":{},\"a\":{}}}",
            levels_json(&bv),
            levels_json(&av)
        )
    } else {
        format!(
            "{{\"e\":\"depthUpdate\",\"E\":{e},\"s\":\"{sym}\",\"U\":{big_u},\"u\":{u},\"b\":{},\"a\":{}}}",
            levels_json(&bv),
            levels_json(&av)
        )
    }
}

fn snapshot_json(inst: &InstD2, id: u64) -> String {
    let (b, a) = truth_at(inst, id);
    let bv: Vec<(i64, i64)> = b.into_iter().collect();
    let av: Vec<(i64, i64)> = a.into_iter().rev().collect();
    format!(
        "{{\"lastUpdateId\":{id},\"bids\":{},\"asks\":{}}}",
        levels_json(&bv),
        levels_json(&av)
    )
}

fn price_of(l: &Level) -> Option<i64> {
    // prices are rendered as "<p>.50"
    let p = l.price - Decimal::new(5, 1);
    if p.fract().is_zero() { p.trunc().to_string().parse().ok() } else { None }
}

fn book_matches(book: &OrderBook, truth: &(Side, Side)) -> Result<(), String> {
    let bids: Vec<(Option<i64>, Decimal)> = book.bids().levels().iter().map(|l| (price_of(l), l.amount)).collect();
    let asks: Vec<(Option<i64>, Decimal)> = book.asks().levels().iter().map(|l| (price_of(l), l.amount)).collect();
    let tb: Vec<(Option<i64>, Decimal)> = truth.0.iter().rev().map(|(p, q)| (Some(*p), Decimal::from(*q))).collect();
    let ta: Vec<(Option<i64>, Decimal)> = truth.1.iter().map(|(p, q)| (Some(*p), Decimal::from(*q))).collect();
    if bids != tb {
        return Err(format!("bids {bids:?} != exchange bids {tb:?}"));
    }
    if asks != ta {
        return Err(format!("asks {asks:?} != exchange asks {ta:?}"));
    }
    Ok(())
}

/// What the probe between the composed stream and the book manager has seen.
#[derive(Default)]
struct ProbeLog {
    /// (connection index at the time, item)
    items: Vec<(usize, ProbeItem)>,
    violation: Option<(String, usize, String)>,
    checks: u64,
}

#[derive(Debug, Clone, PartialEq)]
enum ProbeItem {
    Snapshot { inst: usize, seq: u64 },
    Update { inst: usize, seq: u64 },
    Reconnecting,
}

struct Probe<S> {
    inner: Pin<Box<S>>,
    books: OrderBookMapMulti<usize>,
    insts: Arc<Vec<InstD2>>,
    log: Arc<Mutex<ProbeLog>>,
    conn_counter: Arc<Mutex<usize>>,
    reader_at: Option<usize>,
    yielded: usize,
    reader_fired: Arc<Mutex<bool>>,
    /// lets the reader thread go as soon as the manager comes back for the next item
    reader_release: Option<(std::sync::mpsc::Sender<()>, std::sync::mpsc::Receiver<()>)>,
}

impl<S> Probe<S> {
    /// B3: called whenever the manager asks for the next event, i.e. it has fully applied the
    /// previous one: every book must equal the exchange's book as of the sequence it reports.
    fn check_books(&self) {
        let mut log = self.log.lock().unwrap();
        if log.violation.is_some() {
            return;
        }
        log.checks += 1;
        for (i, inst) in self.insts.iter().enumerate() {
            let Some(book) = self.books.find(&i) else { continue };
            let book = book.read();
            if book.sequence > inst.changes.len() as u64 {
                log.violation = Some(("B3_book_sequence".into(), i, format!("instrument {i}: book reports sequence {} beyond the exchange's last id {}", book.sequence, inst.changes.len())));
                return;
            }
            let truth = truth_at(inst, book.sequence);
            if let Err(e) = book_matches(&book, &truth) {
                let n = log.items.len();
                log.violation = Some((
                    "B3_book_differs_from_exchange".into(),
                    n,
                    format!("instrument {i}: local book at sequence {} differs from the exchange's book as of that id: {e}", book.sequence),
                ));
                return;
            }
        }
    }
}

impl<S> Stream for Probe<S>
where
    S: Stream<Item = MarketStreamEvent<usize, OrderBookEvent>>,
{
    type Item = MarketStreamEvent<usize, OrderBookEvent>;

    fn poll_next(mut self: Pin<&mut Self>, cx: &mut Context<'_>) -> Poll<Option<Self::Item>> {
        if let Some((tx, gone)) = self.reader_release.take() {
            // ... and wait until its lock is really gone before anything else touches the book
            let _ = tx.send(());
            let _ = gone.recv();
        }
        self.check_books();
        let r = self.inner.as_mut().poll_next(cx);
        if let Poll::Ready(Some(ev)) = &r {
            let conn = *self.conn_counter.lock().unwrap();
            let item = match ev {
                Event::Reconnecting(_) => ProbeItem::Reconnecting,
                Event::Item(me) => match &me.kind {
                    OrderBookEvent::Snapshot(b) => ProbeItem::Snapshot { inst: me.instrument, seq: b.sequence },
                    OrderBookEvent::Update(b) => ProbeItem::Update { inst: me.instrument, seq: b.sequence },
                },
            };
            self.log.lock().unwrap().items.push((conn, item));
            if let Event::Item(me) = ev {
                if Some(self.yielded) == self.reader_at {
                    // a reader of the shared book (another thread) takes its read lock right before the
                    // manager applies this item and keeps it for a moment; the order of events is fixed
                    // (reader holds -> manager wants to write -> reader lets go), only its duration is real
                    if let Some(book) = self.books.find(&me.instrument) {
                        let (tx, rx) = std::sync::mpsc::channel::<()>();
                        let (release_tx, release_rx) = std::sync::mpsc::channel::<()>();
                        let (gone_tx, gone_rx) = std::sync::mpsc::channel::<()>();
                        std::thread::spawn(move || {
                            let guard = book.read();
                            let _ = tx.send(());
                            // let go when the manager comes back for the next item, or as soon as a writer
                            // is queued behind this lock (then further readers are refused): no outcome
                            // depends on how long either takes
                            let since = std::time::Instant::now();
                            loop {
                                if release_rx.try_recv().is_ok() || since.elapsed() > Duration::from_secs(5) {
                                    break;
                                }
                                match book.try_read() {
                                    None => break,
                                    Some(probe) => drop(probe),
                                }
                                std::thread::yield_now();
                            }
                            drop(guard);
                            let _ = gone_tx.send(());
                        });
                        let _ = rx.recv();
                        self.reader_release = Some((release_tx, gone_rx));
                        *self.reader_fired.lock().unwrap() = true;
                    }
                }
                self.yielded += 1;
            }
        }
        r
    }
}

type BoxSocket = Pin<Box<dyn Stream<Item = Result<WsMessage, WsError>> + Send>>;
type BoxConn = Pin<Box<dyn Stream<Item = Result<MarketEvent<usize, OrderBookEvent>, DataError>> + Send>>;

fn socket(frames: Vec<(u64, FrameD2, Option<String>)>, offset: usize, insts: Arc<Vec<InstD2>>, futures: bool, delivered: Arc<Mutex<Vec<(usize, usize)>>>, conn: usize, clock: (tokio::time::Instant, Arc<Mutex<u64>>)) -> BoxSocket {
    Box::pin(futures::stream::unfold((frames.into_iter().enumerate(), insts, delivered), move |(mut it, insts, delivered)| { let clock = clock.clone(); async move {
        let (idx, (d, f, _)) = it.next()?;
        if d > 0 {
            tokio::time::sleep(Duration::from_millis(d)).await;
        }
        delivered.lock().unwrap().push((conn, idx + offset));
        *clock.1.lock().unwrap() = clock.0.elapsed().as_millis() as u64;
        let msg = frame_msg(&f, &insts, futures);
        Some((msg, (it, insts, delivered)))
    }}))
}

fn sub_id(sym: &str) -> SubscriptionId {
    SubscriptionId::from(format!("@depth@100ms|{sym}"))
}

#[derive(Clone, Copy, PartialEq, Debug)]
enum Class {
    Old,
    Chains,
    Break,
}

/// Reference classification from the venue's published rule.
fn classify(futures: bool, head: u64, first: bool, r: (u64, u64, u64)) -> Class {
    let (big_u, u, pu) = r;
    if futures {
        if first {
            if u < head {
                Class::Old
            } else if big_u <= head {
                Class::Chains
            } else {
                Class::Break
            }
        } else if u <= head {
            Class::Old
        } else if pu == head {
            Class::Chains
        } else {
            Class::Break
        }
    } else if u <= head {
        Class::Old
    } else if first {
        if big_u <= head + 1 { Class::Chains } else { Class::Break }
    } else if big_u == head + 1 {
        Class::Chains
    } else {
        Class::Break
    }
}

impl Sim for SimD2 {
    type Scenario = ScenarioD2;

    fn name(&self) -> &'static str {
        "D2:binance-l2-over-sim-socket"
    }
    fn property(&self) -> &'static str {
        "C06"
    }
    fn sub_batches(&self) -> Vec<&'static str> {
        vec![
            "spot_gap_free_in_order(with old prefix)",
            "futures_gap_free_in_order(with old prefix)",
            "spot_faulty_delivery",
            "futures_faulty_delivery",
        ]
    }
    fn default_runs(&self) -> (u64, u64) {
        (1_000_000, 30_000_000)
    }

    fn plan(&self, rng: &mut Rng, sub: usize) -> ScenarioD2 {
        let futures = sub % 2 == 1;
        let faulty = sub >= 2;
        let n_inst = 1 + rng.usize(3);
        let insts: Vec<InstD2> = (0..n_inst)
            .map(|_| {
                let n = 6 + rng.usize(40);
                let changes: Vec<(bool, i64, i64)> = (0..n)
                    .map(|_| {
                        let is_bid = rng.chance(1, 2);
                        let p = if is_bid { rng.range(95, 99) } else { rng.range(101, 105) };
                        let q = if rng.chance(1, 4) { 0 } else { rng.range(1, 9) };
                        // (q < 0: the update id is used up without a change - an event made of such
                        // ids only is a depth update with empty bids and asks)
                        if rng.chance(1, 8) { (is_bid, p, -1) } else { (is_bid, p, q) }
                    })
                    .collect();
                let mut cuts = Vec::new();
                let mut at = 0u64;
                while at < n as u64 {
                    at = (at + 1 + rng.below(4)).min(n as u64);
                    cuts.push(at);
                }
                InstD2 { changes, cuts }
            })
            .collect();
        let n_conn = if faulty { 1 + rng.usize(4) } else { 1 + rng.usize(2) };
        let mut conns = Vec::new();
        // per instrument: how far the exchange has progressed (events streamed so far)
        let mut progress: Vec<usize> = vec![0; n_inst];
        for c in 0..n_conn {
            if faulty && c > 0 && rng.chance(1, 5) {
                conns.push(ConnD2 {
                    init_fail: true,
                    snap: vec![0; n_inst],
                    frames: vec![],
                    n_buffered: 0,
                });
            }
            let mut snap = Vec::new();
            let mut seqs: Vec<Vec<usize>> = Vec::new();
            for (i, inst) in insts.iter().enumerate() {
                let n_ev = inst.cuts.len();
                // exchange position when this connection is made
                let from = progress[i].min(n_ev.saturating_sub(1));
                // snapshot id: at an event boundary or inside an event (first update spans it)
                let k_snap = from + rng.usize((n_ev - from).min(4));
                let (big_u, u, _) = ev_range(inst, k_snap.min(n_ev - 1));
                let l = match rng.below(4) {
                    0 => u,
                    1 => big_u.saturating_sub(1),
                    _ => rng.range(big_u.saturating_sub(1) as i64, u as i64) as u64,
                };
                // USD-futures rule: the first processed event must *contain* the snapshot id
                let l = if futures { l.max(1) } else { l };
                snap.push(l);
                // stream start relative to the snapshot: early (old prefix) / exact / late
                let first_needed = if futures {
                    inst.cuts.iter().position(|c| *c >= l).unwrap_or(n_ev)
                } else {
                    inst.cuts.iter().position(|c| *c > l).unwrap_or(n_ev)
                };
                let start = if faulty && rng.chance(1, 8) {
                    (first_needed + 1 + rng.usize(2)).min(n_ev) // late: first message already beyond L+1
                } else {
                    first_needed.saturating_sub(rng.usize(4)) // early: messages older than the snapshot
                };
                let len = 1 + rng.usize(n_ev - start.min(n_ev) + 1);
                let end = (start + len).min(n_ev);
                seqs.push((start..end).collect());
                progress[i] = end;
            }
            // interleave instruments
            let mut frames: Vec<(u64, FrameD2, Option<String>)> = Vec::new();
            let mut cursors = vec![0usize; n_inst];
            loop {
                let avail: Vec<usize> = (0..n_inst).filter(|i| cursors[*i] < seqs[*i].len()).collect();
                if avail.is_empty() {
                    break;
                }
                let i = *rng.pick(&avail);
                frames.push((*rng.pick(&[0u64, 0, 1, 5]), FrameD2::Ev { inst: i, k: seqs[i][cursors[i]] }, None));
                cursors[i] += 1;
            }
            if faulty {
                // network perturbations on the delivery sequence
                let n_faults = rng.usize(4);
                for _ in 0..n_faults {
                    if frames.is_empty() {
                        break;
                    }
                    let at = rng.usize(frames.len());
                    match rng.below(6) {
                        0 => {
                            frames.remove(at);
                            let nxt = at.min(frames.len().saturating_sub(1));
                            if let Some(f) = frames.get_mut(nxt) {
                                f.2 = Some("after_drop".into());
                            }
                        }
                        1 => {
                            let mut d = frames[at].clone();
                            d.2 = Some("dup".into());
                            frames.insert(at + 1, d);
                        }
                        2 => {
                            if at + 1 < frames.len() {
                                frames.swap(at, at + 1);
                                frames[at].2 = Some("swap".into());
                            }
                        }
                        3 => {
                            // replay an old prefix
                            let n = 1 + rng.usize(at + 1);
                            let mut pre: Vec<_> = frames[..n].to_vec();
                            pre.iter_mut().for_each(|f| f.2 = Some("replay".into()));
                            let tail = frames.split_off(at + 1);
                            frames.extend(pre);
                            frames.extend(tail);
                        }
                        _ => {
                            let junk = match rng.below(6) {
                                0 => FrameD2::Malformed,
                                1 => FrameD2::Ping,
                                2 => FrameD2::Pong,
                                3 => FrameD2::Close,
                                4 => FrameD2::UnknownSymbol,
                                _ => FrameD2::WsErr,
                            };
                            frames.insert(at, (0, junk, Some("junk".into())));
                        }
                    }
                }
            }
            let n_buffered = if faulty && rng.chance(1, 3) { rng.usize(frames.len() + 1).min(6) } else { 0 };
            conns.push(ConnD2 {
                init_fail: false,
                snap,
                frames,
                n_buffered,
            });
        }
        ScenarioD2 {
            single_map: rng.chance(1, 6),
            reader_at: if faulty && rng.chance(1, 80) { Some(rng.usize(8)) } else { None },
            futures,
            insts,
            conns,
            tokio_seed: rng.next_u64(),
        }
    }

    fn execute(&self, sc: &ScenarioD2, ctx: &ExecCtx<'_>) -> Outcome {
        let pid = "C06";
        let mut log = Log::new(ctx.keep_log);
        let mut stats = RunStats::default();
        let mut violation: Option<Violation> = None;
        let n_inst = sc.insts.len().min(3);
        // sanitise (shrinking may produce dangling references)
        let insts: Vec<InstD2> = sc
            .insts
            .iter()
            .take(3)
            .map(|i| {
                let n = i.changes.len() as u64;
                let mut cuts: Vec<u64> = i.cuts.iter().copied().filter(|c| *c >= 1 && *c <= n).collect();
                cuts.sort();
                cuts.dedup();
                if cuts.last() != Some(&n) && n > 0 {
                    cuts.push(n);
                }
                InstD2 { changes: i.changes.clone(), cuts }
            })
            .collect();
        if n_inst == 0 || insts.iter().any(|i| i.changes.is_empty()) || sc.conns.is_empty() || sc.conns[0].init_fail {
            return Outcome { violation: None, stats, log_hash: log.hash(), signature: log.signature(), log: log.lines };
        }
        let insts = Arc::new(insts);
        let futures = sc.futures;
        let conns: Vec<ConnD2> = sc
            .conns
            .iter()
            .map(|c| ConnD2 {
                init_fail: c.init_fail,
                snap: (0..n_inst).map(|i| c.snap.get(i).copied().unwrap_or(0).min(insts[i].changes.len() as u64)).collect(),
                frames: c
                    .frames
                    .iter()
                    .filter(|(_, f, _)| match f {
                        FrameD2::Ev { inst, k } => *inst < n_inst && *k < insts[*inst].cuts.len(),
                        _ => true,
                    })
                    .cloned()
                    .collect(),
                n_buffered: c.n_buffered,
            })
            .collect();
        let conns = Arc::new(conns);

        let rt = paused_runtime(sc.tokio_seed);
        let probe_log = Arc::new(Mutex::new(ProbeLog::default()));
        let handler_errs: Arc<Mutex<Vec<(usize, String)>>> = Arc::new(Mutex::new(Vec::new()));
        let delivered: Arc<Mutex<Vec<(usize, usize)>>> = Arc::new(Mutex::new(Vec::new()));
        let conn_counter = Arc::new(Mutex::new(0usize));
        let reader_fired = Arc::new(Mutex::new(false));
        let mut books: FnvHashMap<usize, Arc<RwLock<OrderBook>>> = (0..n_inst).map(|i| (i, Arc::new(RwLock::new(OrderBook::default())))).collect();
        // a book of the same manager that another connection feeds; that connection is quiet (and
        // stays up) during this run, so nothing this connection goes through may touch it
        let bystander = OrderBook::new(77, None, vec![Level::new(Decimal::new(505, 1), Decimal::ONE)], vec![Level::new(Decimal::new(1505, 1), Decimal::TWO)]);
        books.insert(BYSTANDER, Arc::new(RwLock::new(bystander.clone())));
        let book_map = OrderBookMapMulti::new(books);
        let (init_calls, end_ms): (usize, u64) = rt.block_on(async {
            let start = tokio::time::Instant::now();
            let attempt = Arc::new(Mutex::new(0usize));
            let snap_rot = sc.tokio_seed % 3;
            let last_ms = Arc::new(Mutex::new(0u64));
            let last_ms_out = last_ms.clone();
            let (insts2, conns2, delivered2, cc2, attempt2) = (insts.clone(), conns.clone(), delivered.clone(), conn_counter.clone(), attempt.clone());
            let init = move || {
                let (insts, conns, delivered, cc, attempt) = (insts2.clone(), conns2.clone(), delivered2.clone(), cc2.clone(), attempt2.clone());
                let last_ms = last_ms.clone();
                async move {
                    let k = {
                        let mut a = attempt.lock().unwrap();
                        let k = *a;
                        *a += 1;
                        k
                    };
                    let Some(conn) = conns.get(k).cloned() else {
                        return std::future::pending::<Result<BoxConn, DataError>>().await;
                    };
                    if conn.init_fail {
                        return Err(DataError::Socket("sim: connect failed".into()));
                    }
                    *cc.lock().unwrap() = k;
                    // REST snapshots: the venue's JSON, through the real deserialiser + conversion
                    let exchange = if futures { ExchangeId::BinanceFuturesUsd } else { ExchangeId::BinanceSpot };
                    let snapshots: Vec<MarketEvent<usize, OrderBookEvent>> = insts
                        .iter()
                        .enumerate()
                        .map(|(i, inst)| {
                            let snap: BinanceOrderBookL2Snapshot = serde_json::from_str(&snapshot_json(inst, conn.snap[i])).expect("snapshot json");
                            MarketEvent::from((exchange, i, snap))
                        })
                        .collect();
                    // the order of the fetched snapshots is not tied to the subscription map's order
                    let mut snapshots = snapshots;
                    let n = snapshots.len();
                    snapshots.rotate_left((snap_rot as usize + k) % n.max(1));
                    let map: Map<usize> = insts.iter().enumerate().map(|(i, _)| (sub_id(SYMBOLS[i]), i)).collect();
                    let (ws_sink_tx, _ws_sink_rx) = tokio::sync::mpsc::unbounded_channel();
                    // frames that arrived while the subscription was being validated
                    let (n_buf, _) = effective_buffered(&conn, &insts, futures);
                    let buffered: Vec<WsMessage> = conn.frames[..n_buf].iter().filter_map(|(_, f, _)| frame_msg(f, &insts, futures).ok()).collect();
                    for idx in 0..n_buf {
                        delivered.lock().unwrap().push((k, idx));
                    }
                    let sock = socket(conn.frames[n_buf..].to_vec(), n_buf, insts.clone(), futures, delivered.clone(), k, (start, last_ms.clone()));
                    // same assembly order as MarketStream::init: transformer from the snapshots, then
                    // the snapshot events are the stream's initial buffer
                    let stream: BoxConn = if futures {
                        let mut t = <BinanceFuturesUsdOrderBooksL2Transformer<usize> as ExchangeTransformer<BinanceFuturesUsd, usize, OrderBooksL2>>::init(map, &snapshots, ws_sink_tx).await?;
                        let mut processed = barter_data::process_buffered_events::<WebSocketParser, _>(&mut t, buffered);
                        processed.extend(snapshots.into_iter().map(Ok));
                        Box::pin(ExchangeStream::<WebSocketParser, _, _>::new(sock, t, processed))
                    } else {
                        let mut t = <BinanceSpotOrderBooksL2Transformer<usize> as ExchangeTransformer<BinanceSpot, usize, OrderBooksL2>>::init(map, &snapshots, ws_sink_tx).await?;
                        let mut processed = barter_data::process_buffered_events::<WebSocketParser, _>(&mut t, buffered);
                        processed.extend(snapshots.into_iter().map(Ok));
                        Box::pin(ExchangeStream::<WebSocketParser, _, _>::new(sock, t, processed))
                    };
                    Ok(stream)
                }
            };
            let key = StreamKey::new_general("market_stream", ExchangeId::BinanceSpot);
            let Ok(stream) = init_reconnecting_stream(init).await else { return (0, 0) };
            let he = handler_errs.clone();
            let cc3 = conn_counter.clone();
            let composed = stream
                .with_reconnect_backoff::<_, DataError>(
                    ReconnectionBackoffPolicy { backoff_ms_initial: 10, backoff_multiplier: 2, backoff_ms_max: 80 },
                    key,
                )
                .with_termination_on_error(|e: &DataError| e.is_terminal(), key)
                .with_reconnection_events(ExchangeId::BinanceSpot)
                .with_error_handler(move |e: DataError| he.lock().unwrap().push((*cc3.lock().unwrap(), format!("{e:?}"))));
            let probe = Probe {
                inner: Box::pin(composed),
                books: book_map.clone(),
                insts: insts.clone(),
                log: probe_log.clone(),
                conn_counter: conn_counter.clone(),
                reader_at: sc.reader_at,
                yielded: 0,
                reader_fired: reader_fired.clone(),
                reader_release: None,
            };
            // the reconnecting stream never ends: run until the script is exhausted and quiet
            if sc.single_map {
                let only = barter_data::books::map::OrderBookMapSingle::new(0usize, book_map.find(&0).expect("book 0"));
                let manager = OrderBookL2Manager { stream: probe, books: only };
                let _ = tokio::time::timeout(Duration::from_secs(600), manager.run()).await;
            } else {
                let manager = OrderBookL2Manager { stream: probe, books: book_map.clone() };
                let _ = tokio::time::timeout(Duration::from_secs(600), manager.run()).await;
            }
            let calls = *attempt.lock().unwrap();
            let _ = start.elapsed();
            (calls, *last_ms_out.lock().unwrap())
        });
        drop(rt);
        stats.sim_time_ms = end_ms.min(600_000);
        if *reader_fired.lock().unwrap() {
            stats.fault("busy_reader_on_shared_book");
        }
        if sc.single_map && n_inst > 1 {
            stats.probe("single_book_map_on_multi_instrument_stream");
        }

        let plog = probe_log.lock().unwrap();
        let delivered = delivered.lock().unwrap().clone();
        let herrs = handler_errs.lock().unwrap().clone();
        for (c, it) in &plog.items {
            log.line(|| format!("conn {c}: {it:?}"));
            log.sig(match it {
                ProbeItem::Snapshot { .. } => "S",
                ProbeItem::Update { .. } => "U",
                ProbeItem::Reconnecting => "R",
            });
        }
        for (c, e) in &herrs {
            log.line(|| format!("conn {c}: non-terminal error {e}"));
        }
        log.line(|| format!("init attempts {init_calls}, book checks {}", plog.checks));
        stats.steps = delivered.len() as u64;

        macro_rules! fail {
            ($l:lifetime, $rule:expr, $step:expr, $($arg:tt)*) => {{
                violation = report(ctx, &mut stats, pid, $rule, $step, format!($($arg)*), None);
                if violation.is_some() {
                    break $l;
                }
            }};
        }
        #[allow(clippy::never_loop)]
        'chk: loop {
            if let Some((rule, step, detail)) = &plog.violation {
                fail!('chk, rule, *step, "{detail}");
            }
            {
                let b = book_map.find(&BYSTANDER).unwrap();
                let b = b.read();
                if *b != bystander {
                    fail!('chk, "B3_book_differs_from_exchange", plog.items.len(), "the book fed by another (quiet, healthy) connection of the same manager changed from {bystander:?} to {:?}", *b);
                }
            }
            // final book check (the manager is parked on a pending stream)
            for (i, inst) in insts.iter().enumerate() {
                let b = book_map.find(&i).unwrap();
                let b = b.read();
                if b.sequence <= inst.changes.len() as u64 {
                    if let Err(e) = book_matches(&b, &truth_at(inst, b.sequence)) {
                        fail!('chk, "B3_book_differs_from_exchange", plog.items.len(), "final: instrument {i} at sequence {}: {e}", b.sequence);
                    }
                }
            }
            // per connection: reference classification of every delivered frame vs what was admitted
            for (ci, conn) in conns.iter().enumerate() {
                if conn.init_fail {
                    stats.fault("init_failure");
                    continue;
                }
                let was_initialised = plog.items.iter().any(|(c, _)| *c == ci);
                if !was_initialised {
                    continue;
                }
                let items: Vec<&ProbeItem> = plog.items.iter().filter(|(c, _)| *c == ci).map(|(_, i)| i).collect();
                let (n_buf, buffer_break) = effective_buffered(conn, &insts, futures);
                if n_buf > 0 {
                    stats.fault("frames_buffered_during_handshake");
                }
                if buffer_break {
                    // the chain broke inside the handshake buffer: the terminal error is the first thing
                    // the stream yields, so nothing of this connection may reach a book
                    stats.probe("gap_in_handshake_buffer");
                    if items.iter().any(|it| !matches!(it, ProbeItem::Reconnecting)) {
                        fail!('chk, "B2_break_not_terminal", ci, "connection {ci}: the chain broke inside the frames buffered during the handshake, yet the connection applied {items:?}");
                    }
                }
                // snapshots first, one per instrument, then updates, then exactly one notice
                for i in (0..n_inst).filter(|_| !buffer_break) {
                    let first = items.iter().find(|it| matches!(it, ProbeItem::Snapshot { inst, .. } | ProbeItem::Update { inst, .. } if *inst == i));
                    match first {
                        Some(ProbeItem::Snapshot { seq, .. }) if *seq == conn.snap[i] => {}
                        other => {
                            fail!('chk, "B2_snapshot_first_after_reinit", ci, "connection {ci}: first event applied to instrument {i}'s book is {other:?}, expected the snapshot at id {}", conn.snap[i]);
                        }
                    }
                }
                let notices = items.iter().filter(|it| ***it == ProbeItem::Reconnecting).count();
                let n_delivered = delivered.iter().filter(|(c, _)| *c == ci).count();
                let ended = n_delivered == conn.frames.len() || items.last() == Some(&&ProbeItem::Reconnecting);
                let is_last_conn = !plog.items.iter().any(|(c, _)| *c > ci);
                if notices > 1 || (notices == 0 && !is_last_conn) || (notices == 1 && items.last() != Some(&&ProbeItem::Reconnecting)) {
                    fail!('chk, "B2_one_notice_per_drop", ci, "connection {ci}: {notices} reconnecting notices, items {items:?}");
                }
                let _ = ended;
                // admitted updates per instrument, in order
                let mut head: Vec<u64> = conn.snap.clone();
                let mut first: Vec<bool> = vec![true; n_inst];
                let mut admitted_q: Vec<VecDeque<u64>> = (0..n_inst)
                    .map(|i| items.iter().filter_map(|it| match it { ProbeItem::Update { inst, seq } if *inst == i => Some(*seq), _ => None }).collect())
                    .collect();
                // gap-free in-order delivery (possibly preceded by older messages): only depth events,
                // per instrument consecutive ascending event numbers, and no break under the venue rule
                let fault_free = {
                    let mut ok = conn.frames.iter().all(|(_, f, _)| matches!(f, FrameD2::Ev { .. }));
                    for i in 0..n_inst {
                        let ks: Vec<usize> = conn.frames.iter().filter_map(|(_, f, _)| match f { FrameD2::Ev { inst, k } if *inst == i => Some(*k), _ => None }).collect();
                        ok &= ks.windows(2).all(|w| w[1] == w[0] + 1);
                        let (mut h, mut fst) = (conn.snap[i], true);
                        for k in ks {
                            match classify(futures, h, fst, ev_range(&insts[i], k)) {
                                Class::Break => ok = false,
                                Class::Chains => {
                                    h = insts[i].cuts[k];
                                    fst = false;
                                }
                                Class::Old => {}
                            }
                        }
                    }
                    ok
                };
                if fault_free && conn.frames.iter().any(|(_, f, _)| matches!(f, FrameD2::Ev { inst, k } if insts[*inst].cuts[*k] <= conn.snap[*inst])) {
                    stats.probe("gap_free_delivery_with_old_prefix");
                }
                let mut may_be_dead = false;
                let mut must_be_dead: Option<usize> = None;
                let mut died_at: Option<usize> = None;
                let frames_delivered: Vec<&(u64, FrameD2, Option<String>)> = conn.frames.iter().take(n_delivered).collect();
                for (fi, (_, f, tag)) in frames_delivered.iter().enumerate() {
                    if let Some(t) = tag {
                        match t.as_str() {
                            "dup" => stats.fault("duplicate"),
                            "swap" => stats.fault("swap_adjacent"),
                            "replay" => stats.fault("replay_old_prefix"),
                            "after_drop" => stats.fault("drop"),
                            "junk" => stats.fault("harmless_junk_frame"),
                            _ => {}
                        }
                    }
                    let FrameD2::Ev { inst, k } = f else {
                        stats.probe("junk_frame_did_not_end_connection");
                        continue;
                    };
                    let r = ev_range(&insts[*inst], *k);
                    let class = classify(futures, head[*inst], first[*inst], r);
                    let is_admitted = admitted_q[*inst].front() == Some(&r.1);
                    match class {
                        Class::Chains => {
                            if is_admitted {
                                if let Some(b) = must_be_dead {
                                    fail!('chk, "B2_break_not_terminal", fi, "connection {ci}: frame {fi} (instrument {inst} U={} u={}) admitted after the chain broke at frame {b}", r.0, r.1);
                                }
                                if let Some(d) = died_at {
                                    fail!('chk, "B5_frame_skipped_silently", fi, "connection {ci}: frame {d} chained but was not admitted, yet later frame {fi} was");
                                }
                                admitted_q[*inst].pop_front();
                                if first[*inst] && r.0 <= head[*inst] && head[*inst] > 0 {
                                    stats.probe("first_update_spans_snapshot");
                                }
                                head[*inst] = r.1;
                                first[*inst] = false;
                            } else if may_be_dead || must_be_dead.is_some() {
                                died_at.get_or_insert(fi);
                            } else {
                                fail!(
                                    'chk,
                                    "B5_frame_skipped_silently",
                                    fi,
                                    "connection {ci}: frame {fi} (instrument {inst} U={} u={} pu={}) continues the chain (head {}, first={}) but was not admitted and nothing ended the connection before it",
                                    r.0, r.1, r.2, head[*inst], first[*inst]
                                );
                            }
                        }
                        Class::Old => {
                            if is_admitted {
                                fail!('chk, "B1_chain_broken", fi, "connection {ci}: stale frame {fi} (instrument {inst} u={} <= head {}) was admitted into the book", r.1, head[*inst]);
                            }
                            stats.probe("stale_frame_not_admitted");
                            if fault_free {
                                // strictly older messages before a gap-free delivery never error
                            } else {
                                may_be_dead = true;
                            }
                        }
                        Class::Break => {
                            if is_admitted {
                                fail!(
                                    'chk,
                                    "B1_chain_broken",
                                    fi,
                                    "connection {ci}: frame {fi} (instrument {inst} U={} u={} pu={}) does not continue the chain (head {}, first={}) but was admitted",
                                    r.0, r.1, r.2, head[*inst], first[*inst]
                                );
                            }
                            if must_be_dead.is_none() {
                                stats.probe(if tag.as_deref() == Some("swap") { "swap_detected" } else { "gap_detected" });
                                if n_inst > 1 {
                                    stats.probe("multi_instrument_one_invalid");
                                }
                            }
                            must_be_dead.get_or_insert(fi);
                        }
                    }
                }
                if let Some(q) = admitted_q.iter().position(|q| !q.is_empty()) {
                    fail!('chk, "B1_chain_broken", ci, "connection {ci}: instrument {q} admitted updates {:?} that match no delivered frame in order", admitted_q[q]);
                }
                if let Some(b) = must_be_dead {
                    // the break must surface: the connection ends (notice) and later frames are not consumed
                    if notices != 1 {
                        fail!('chk, "B2_break_not_terminal", b, "connection {ci}: chain broke at frame {b} but no reconnecting notice followed");
                    }
                    stats.probe("break_forced_reinitialisation");
                }
                if fault_free {
                    // B4: a gap-free in-order delivery (with old prefix) never errors and is fully admitted
                    if herrs.iter().any(|(c, _)| *c == ci) {
                        fail!('chk, "B4_gap_free_delivery_errored", ci, "connection {ci}: errors on a gap-free in-order delivery: {:?}", herrs);
                    }
                    if died_at.is_some() || must_be_dead.is_some() {
                        fail!('chk, "B4_gap_free_delivery_errored", ci, "connection {ci}: gap-free delivery was not fully admitted");
                    }
                    for i in 0..n_inst {
                        let last_u = conn.frames.iter().filter_map(|(_, f, _)| match f { FrameD2::Ev { inst, k } if *inst == i => Some(insts[i].cuts[*k]), _ => None }).max();
                        if let Some(u) = last_u {
                            if u > conn.snap[i] && head[i] != u {
                                fail!('chk, "B4_gap_free_delivery_errored", ci, "connection {ci}: instrument {i} delivered up to id {u} but the chain stopped at {}", head[i]);
                            }
                        }
                    }
                }
                stats.fault("connection_end");
            }
            if !herrs.is_empty() {
                stats.probe("non_terminal_error_handled");
            }
            break;
        }
        Outcome { violation, stats, log_hash: log.hash(), signature: log.signature(), log: log.lines }
    }

    fn shrink_len(&self, sc: &ScenarioD2) -> usize {
        sc.conns.iter().map(|c| c.frames.len()).sum::<usize>() + sc.conns.len()
    }
    fn shrink_remove(&self, sc: &ScenarioD2, from: usize, to: usize) -> ScenarioD2 {
        let mut s = sc.clone();
        let total: usize = s.conns.iter().map(|c| c.frames.len()).sum();
        // indices >= total address whole connections (never the first one)
        let mut drop_conns: Vec<usize> = (from.max(total)..to.max(total)).map(|x| x - total).filter(|c| *c > 0).collect();
        drop_conns.sort();
        let mut pos = 0usize;
        for c in s.conns.iter_mut() {
            let n = c.frames.len();
            let (lo, hi) = (from.max(pos).min(pos + n), to.max(pos).min(pos + n));
            if hi > lo {
                c.frames.drain((lo - pos)..(hi - pos));
            }
            pos += n;
        }
        for c in drop_conns.into_iter().rev() {
            if c < s.conns.len() {
                s.conns.remove(c);
            }
        }
        s
    }
    fn simplify(&self, sc: &ScenarioD2) -> Vec<ScenarioD2> {
        let mut out = Vec::new();
        if sc.insts.len() > 1 {
            for drop in (0..sc.insts.len()).rev() {
                let mut s = sc.clone();
                s.insts.remove(drop);
                for c in s.conns.iter_mut() {
                    if drop < c.snap.len() {
                        c.snap.remove(drop);
                    }
                    c.frames.retain(|(_, f, _)| !matches!(f, FrameD2::Ev { inst, .. } if *inst == drop));
                    for f in c.frames.iter_mut() {
                        if let FrameD2::Ev { inst, .. } = &mut f.1 {
                            if *inst > drop {
                                *inst -= 1;
                            }
                        }
                    }
                }
                out.push(s);
            }
        }
        if sc.conns.iter().any(|c| c.frames.iter().any(|f| f.0 != 0)) {
            let mut s = sc.clone();
            s.conns.iter_mut().for_each(|c| c.frames.iter_mut().for_each(|f| f.0 = 0));
            out.push(s);
        }
        out
    }

    fn rule_text(&self) -> String {
        "each run = one PRNG-planned exchange book evolution for 1-3 instruments multiplexed on one connection (atomic changes with ids 1..N: set / delete levels incl. deletes of absent levels and repeated prices; depth events aggregating consecutive id ranges with the final absolute quantity per touched price, rendered as the venue's JSON text frames; REST snapshot JSON at a seeded id, at or inside an event) and 1-5 connection attempts whose socket starts early (older messages than the snapshot) or late and perturbs delivery: drop, duplicate, swap adjacent, replay an old prefix, end of stream, failed connect, plus frames that must be harmless (malformed JSON, websocket error item, ping / pong / close, update for an unsubscribed symbol). The frames run through the real parser, transformers + sequencers (spot and USD-futures rule sets are separate sub-batches), reconnect pipeline and book manager. Oracle: B1 every admitted update continues the chain under the venue's published rule (reference classifier old / chains / break), B2 a break surfaces as a terminal error: nothing of that connection is admitted afterwards, exactly one reconnecting notice per connection, and the first thing applied to each book afterwards is the new snapshot, B3 at every instant the manager asks for the next event every book equals the exchange's book as of the sequence it reports, B4 a gap-free in-order delivery preceded by strictly older messages never errors and is fully admitted, B5 no chaining frame is skipped silently and harmless frames neither end the connection nor touch a book. distinct = distinct skeleton of applied snapshots / updates / notices; non-trivial = a delivery fault fired AND a probe hit".into()
    }
    fn components_real(&self) -> Vec<&'static str> {
        vec![
            "barter_integration::protocol::websocket::WebSocketParser",
            "barter_integration::stream::ExchangeStream::{new, poll_next}",
            "barter_data::exchange::binance::{spot,futures}::l2::{Binance*OrderBooksL2Transformer::{init, transform}, Binance*OrderBookL2Sequencer, update/snapshot deserialisers}",
            "barter_data::books::{OrderBook::update, OrderBookSide::upsert}, manager::OrderBookL2Manager::run, map::OrderBookMapMulti",
            "barter_data::error::DataError::is_terminal",
            "barter_data::streams::reconnect::stream::{init_reconnecting_stream, with_reconnect_backoff, with_termination_on_error, with_reconnection_events, with_error_handler}",
        ]
    }
    fn components_stub(&self) -> Vec<&'static str> {
        vec![
            "exchange: book process, REST snapshot JSON, depth-event JSON frames",
            "websocket: in-memory Stream<Item = Result<WsMessage, WsError>> with delivery perturbations",
            "MarketStream::init body (connect, subscribe handshake, REST fetch, ping tasks) is NOT run; the harness assembles transformer + initial snapshot buffer + ExchangeStream::new in the same order",
        ]
    }
    fn fault_kinds(&self) -> Vec<&'static str> {
        vec!["drop", "duplicate", "swap_adjacent", "replay_old_prefix", "harmless_junk_frame", "init_failure", "connection_end", "frames_buffered_during_handshake", "busy_reader_on_shared_book"]
    }
    fn probe_kinds(&self) -> Vec<&'static str> {
        vec![
            "first_update_spans_snapshot",
            "stale_frame_not_admitted",
            "gap_detected",
            "swap_detected",
            "multi_instrument_one_invalid",
            "break_forced_reinitialisation",
            "junk_frame_did_not_end_connection",
            "non_terminal_error_handled",
            "gap_free_delivery_with_old_prefix",
            "gap_in_handshake_buffer",
            "single_book_map_on_multi_instrument_stream",
        ]
    }
    fn assumptions(&self) -> Vec<String> {
        vec![
            "a stale or duplicated message delivered mid-stream may be dropped silently or force re-initialisation; both keep the book correct and are accepted".into(),
            "frames buffered during subscription validation go through the real process_buffered_events and are queued ahead of the snapshot events exactly as MarketStream::init does, but only stale / harmless frames, optionally closed by one chain-breaking event, are generated: a buffered event that continues the chain would be emitted ahead of the snapshot it was validated against (DESIGN.md section 7, noted issue outside the claimed set)".into(),
        ]
    }
}

