//! Scripted `ExecutionClient` (the far side of the execution seam) + paused-runtime helper.

use crate::world::*;
use barter_execution::{
    UnindexedAccountEvent, UnindexedAccountSnapshot,
    balance::AssetBalance,
    client::ExecutionClient,
    error::{ApiError, ConnectivityError, UnindexedClientError, UnindexedOrderError},
    order::{
        Order, OrderKey,
        id::OrderId,
        request::{OrderRequestCancel, OrderRequestOpen, UnindexedOrderResponseCancel},
        state::{Cancelled, Open},
    },
    trade::Trade,
};
use barter_instrument::{
    asset::{QuoteAsset, name::AssetNameExchange},
    exchange::ExchangeId,
    instrument::name::InstrumentNameExchange,
};
use chrono::{DateTime, Utc};
use serde::{Deserialize, Serialize};
use std::{
    collections::HashMap,
    sync::{Arc, Mutex},
};
use tokio::sync::mpsc;
use tokio_stream::wrappers::UnboundedReceiverStream;

#[derive(Clone, Copy, Debug, Serialize, Deserialize, PartialEq)]
pub enum Resp {
    /// Ok, partially filled / unfilled open order
    OkOpen,
    /// Ok, filled quantity == quantity (manager must report fully filled)
    OkFull,
    Rejected,
    Connectivity,
}

#[derive(Clone, Copy, Debug, Serialize, Deserialize, PartialEq)]
pub struct Behav {
    /// None = never answers
    pub delay_ms: Option<u64>,
    pub resp: Resp,
}

#[derive(Clone, Debug, PartialEq)]
pub struct RecvReq {
    pub at_ms: u64,
    pub open: bool,
    pub exchange: ExchangeId,
    pub instrument: String,
    pub cid: String,
}

pub struct ClientInner {
    pub exchange: ExchangeId,
    pub behav: HashMap<String, Behav>,
    pub received: Mutex<Vec<RecvReq>>,
    pub start: tokio::time::Instant,
    /// one receiver per account-stream connection, handed out in order (re-connections take the next)
    pub account_rx: Mutex<std::collections::VecDeque<mpsc::UnboundedReceiver<UnindexedAccountEvent>>>,
    pub snapshot: UnindexedAccountSnapshot,
    pub snapshot_calls: Mutex<u64>,
    /// numbers (1-based) of the `account_snapshot` calls that report a balance for an asset nobody
    /// configured (an airdrop): the manager cannot index such a snapshot
    pub poisoned_snapshot_calls: Mutex<Vec<u64>>,
}

#[derive(Clone)]
pub struct SimClient(pub Arc<ClientInner>);

impl SimClient {
    pub fn new_client(
        exchange: ExchangeId,
        behav: HashMap<String, Behav>,
        snapshot: UnindexedAccountSnapshot,
    ) -> (Self, mpsc::UnboundedSender<UnindexedAccountEvent>) {
        let (tx, rx) = mpsc::unbounded_channel();
        (
            SimClient(Arc::new(ClientInner {
                exchange,
                behav,
                received: Mutex::new(Vec::new()),
                start: tokio::time::Instant::now(),
                account_rx: Mutex::new(std::collections::VecDeque::from([rx])),
                snapshot,
                snapshot_calls: Mutex::new(0),
                poisoned_snapshot_calls: Mutex::new(Vec::new()),
            })),
            tx,
        )
    }

    /// Prepare one more account-stream connection (used after the current one is dropped).
    pub fn add_connection(&self) -> mpsc::UnboundedSender<UnindexedAccountEvent> {
        let (tx, rx) = mpsc::unbounded_channel();
        self.0.account_rx.lock().unwrap().push_back(rx);
        tx
    }

    fn now_ms(&self) -> u64 {
        self.0.start.elapsed().as_millis() as u64
    }

    fn behav(&self, cid: &str) -> Behav {
        self.0.behav.get(cid).copied().unwrap_or(Behav {
            delay_ms: Some(0),
            resp: Resp::OkOpen,
        })
    }
}

/// The scripted answer to a cancel request (shared by `SimClient` and the scripted mock exchange).
pub fn cancel_response(key: OrderKey<ExchangeId, InstrumentNameExchange>, b: Behav, now_ms: u64) -> UnindexedOrderResponseCancel {
    let cid = key.cid.0.to_string();
    let state = match b.resp {
        Resp::OkOpen | Resp::OkFull => Ok(Cancelled { id: OrderId::new(format!("x-{cid}")), time_exchange: ts(now_ms as i64) }),
        Resp::Rejected => Err(UnindexedOrderError::Rejected(ApiError::OrderAlreadyCancelled)),
        Resp::Connectivity => Err(UnindexedOrderError::Connectivity(ConnectivityError::Socket("sim".into()))),
    };
    UnindexedOrderResponseCancel { key, state }
}

/// The scripted answer to an open request.
pub fn open_response(
    key: OrderKey<ExchangeId, InstrumentNameExchange>,
    st: &barter_execution::order::request::RequestOpen,
    b: Behav,
    now_ms: u64,
) -> Order<ExchangeId, InstrumentNameExchange, Result<Open, UnindexedOrderError>> {
    let cid = key.cid.0.to_string();
    let state = match b.resp {
        Resp::OkOpen => Ok(Open { id: OrderId::new(format!("x-{cid}")), time_exchange: ts(now_ms as i64), filled_quantity: dec(0) }),
        Resp::OkFull => Ok(Open { id: OrderId::new(format!("x-{cid}")), time_exchange: ts(now_ms as i64), filled_quantity: st.quantity }),
        Resp::Rejected => Err(UnindexedOrderError::Rejected(rejection_for(&key.instrument))),
        Resp::Connectivity => Err(UnindexedOrderError::Connectivity(ConnectivityError::Socket("sim".into()))),
    };
    Order { key, side: st.side, price: st.price, quantity: st.quantity, kind: st.kind, time_in_force: st.time_in_force, state }
}

thread_local! {
    /// (instrument name, asset name): a rejected open for that instrument is an insufficient-balance
    /// error naming that asset (the margin / settlement asset of a derivative)
    static MARGIN_REJECT: std::cell::RefCell<Option<(String, String)>> = const { std::cell::RefCell::new(None) };
}
pub struct MarginRejectGuard;
impl Drop for MarginRejectGuard {
    fn drop(&mut self) {
        MARGIN_REJECT.with(|m| *m.borrow_mut() = None);
    }
}
pub fn set_margin_reject(v: Option<(String, String)>) -> MarginRejectGuard {
    MARGIN_REJECT.with(|m| *m.borrow_mut() = v);
    MarginRejectGuard
}
fn rejection_for(instrument: &InstrumentNameExchange) -> ApiError<AssetNameExchange, InstrumentNameExchange> {
    match MARGIN_REJECT.with(|m| m.borrow().clone()) {
        Some((inst, asset)) if inst == instrument.name().as_str() => ApiError::BalanceInsufficient(AssetNameExchange::from(asset.as_str()), "sim margin".into()),
        _ => ApiError::OrderRejected("sim".into()),
    }
}

pub async fn wait_behav(b: Behav) {
    wait(b).await
}

async fn wait(b: Behav) {
    match b.delay_ms {
        None => std::future::pending::<()>().await,
        Some(0) => {}
        Some(d) => tokio::time::sleep(std::time::Duration::from_millis(d)).await,
    }
}

impl ExecutionClient for SimClient {
    const EXCHANGE: ExchangeId = ExchangeId::Simulated;
    type Config = SimClient;
    type AccountStream = UnboundedReceiverStream<UnindexedAccountEvent>;

    fn new(config: Self::Config) -> Self {
        config
    }

    async fn account_snapshot(
        &self,
        _: &[AssetNameExchange],
        _: &[InstrumentNameExchange],
    ) -> Result<UnindexedAccountSnapshot, UnindexedClientError> {
        let call = {
            let mut n = self.0.snapshot_calls.lock().unwrap();
            *n += 1;
            *n
        };
        let mut snapshot = self.0.snapshot.clone();
        if self.0.poisoned_snapshot_calls.lock().unwrap().contains(&call) {
            snapshot.balances.push(AssetBalance {
                asset: AssetNameExchange::from("airdrop"),
                balance: barter_execution::balance::Balance::new(dec(1), dec(1)),
                time_exchange: ts(self.now_ms() as i64),
            });
        }
        Ok(snapshot)
    }

    async fn account_stream(
        &self,
        _: &[AssetNameExchange],
        _: &[InstrumentNameExchange],
    ) -> Result<Self::AccountStream, UnindexedClientError> {
        match self.0.account_rx.lock().unwrap().pop_front() {
            Some(rx) => Ok(UnboundedReceiverStream::new(rx)),
            None => Err(UnindexedClientError::AccountStream(
                "sim: account stream already taken".into(),
            )),
        }
    }

    fn cancel_order(
        &self,
        request: OrderRequestCancel<ExchangeId, &InstrumentNameExchange>,
    ) -> impl Future<Output = UnindexedOrderResponseCancel> + Send {
        let me = self.clone();
        let key = OrderKey {
            exchange: request.key.exchange,
            instrument: request.key.instrument.clone(),
            strategy: request.key.strategy.clone(),
            cid: request.key.cid.clone(),
        };
        let cid = key.cid.0.to_string();
        me.0.received.lock().unwrap().push(RecvReq {
            at_ms: me.now_ms(),
            open: false,
            exchange: key.exchange,
            instrument: key.instrument.name().to_string(),
            cid: cid.clone(),
        });
        // a cancel may be scripted separately from the open of the same order ("x:<cid>")
        let b = match me.0.behav.get(&format!("x:{cid}")) {
            Some(b) => *b,
            None => me.behav(&cid),
        };
        async move {
            wait(b).await;
            let state = match b.resp {
                Resp::OkOpen | Resp::OkFull => Ok(Cancelled {
                    id: OrderId::new(format!("x-{cid}")),
                    time_exchange: ts(me.now_ms() as i64),
                }),
                Resp::Rejected => Err(UnindexedOrderError::Rejected(ApiError::OrderAlreadyCancelled)),
                Resp::Connectivity => Err(UnindexedOrderError::Connectivity(
                    ConnectivityError::Socket("sim".into()),
                )),
            };
            UnindexedOrderResponseCancel { key, state }
        }
    }

    fn open_order(
        &self,
        request: OrderRequestOpen<ExchangeId, &InstrumentNameExchange>,
    ) -> impl Future<
        Output = Order<ExchangeId, InstrumentNameExchange, Result<Open, UnindexedOrderError>>,
    > + Send {
        let me = self.clone();
        let key = OrderKey {
            exchange: request.key.exchange,
            instrument: request.key.instrument.clone(),
            strategy: request.key.strategy.clone(),
            cid: request.key.cid.clone(),
        };
        let st = request.state.clone();
        let cid = key.cid.0.to_string();
        me.0.received.lock().unwrap().push(RecvReq {
            at_ms: me.now_ms(),
            open: true,
            exchange: key.exchange,
            instrument: key.instrument.name().to_string(),
            cid: cid.clone(),
        });
        let b = me.behav(&cid);
        async move {
            wait(b).await;
            let state = match b.resp {
                Resp::OkOpen => Ok(Open {
                    id: OrderId::new(format!("x-{cid}")),
                    time_exchange: ts(me.now_ms() as i64),
                    filled_quantity: dec(0),
                }),
                Resp::OkFull => Ok(Open {
                    id: OrderId::new(format!("x-{cid}")),
                    time_exchange: ts(me.now_ms() as i64),
                    filled_quantity: st.quantity,
                }),
                Resp::Rejected => Err(UnindexedOrderError::Rejected(rejection_for(&key.instrument))),
                Resp::Connectivity => Err(UnindexedOrderError::Connectivity(
                    ConnectivityError::Socket("sim".into()),
                )),
            };
            Order {
                key,
                side: st.side,
                price: st.price,
                quantity: st.quantity,
                kind: st.kind,
                time_in_force: st.time_in_force,
                state,
            }
        }
    }

    async fn fetch_balances(
        &self,
    ) -> Result<Vec<AssetBalance<AssetNameExchange>>, UnindexedClientError> {
        Ok(self.0.snapshot.balances.clone())
    }

    async fn fetch_open_orders(
        &self,
    ) -> Result<Vec<Order<ExchangeId, InstrumentNameExchange, Open>>, UnindexedClientError> {
        Ok(vec![])
    }

    async fn fetch_trades(
        &self,
        _: DateTime<Utc>,
    ) -> Result<Vec<Trade<QuoteAsset, InstrumentNameExchange>>, UnindexedClientError> {
        Ok(vec![])
    }
}

/// Fresh current-thread runtime: paused clock (discrete-event time), seeded `select!` tie-breaks.
pub fn paused_runtime(seed: u64) -> tokio::runtime::Runtime {
    tokio::runtime::Builder::new_current_thread()
        .enable_time()
        .start_paused(true)
        .rng_seed(tokio::runtime::RngSeed::from_bytes(&seed.to_le_bytes()))
        .build()
        .expect("paused runtime")
}

/// `SimClient` bound to the N-th simulator exchange (`ExecutionClient::EXCHANGE` is a const, and
/// `ExecutionBuilder::add_live` derives the exchange from it).
#[derive(Clone)]
pub struct SimClientN<const N: usize>(pub SimClient);

impl<const N: usize> ExecutionClient for SimClientN<N> {
    const EXCHANGE: ExchangeId = crate::world::EXS[N];
    type Config = SimClient;
    type AccountStream = UnboundedReceiverStream<UnindexedAccountEvent>;

    fn new(config: Self::Config) -> Self {
        SimClientN(config)
    }
    fn account_snapshot(
        &self,
        a: &[AssetNameExchange],
        i: &[InstrumentNameExchange],
    ) -> impl Future<Output = Result<UnindexedAccountSnapshot, UnindexedClientError>> + Send {
        self.0.account_snapshot(a, i)
    }
    fn account_stream(
        &self,
        a: &[AssetNameExchange],
        i: &[InstrumentNameExchange],
    ) -> impl Future<Output = Result<Self::AccountStream, UnindexedClientError>> + Send {
        self.0.account_stream(a, i)
    }
    fn cancel_order(
        &self,
        request: OrderRequestCancel<ExchangeId, &InstrumentNameExchange>,
    ) -> impl Future<Output = UnindexedOrderResponseCancel> + Send {
        self.0.cancel_order(request)
    }
    fn open_order(
        &self,
        request: OrderRequestOpen<ExchangeId, &InstrumentNameExchange>,
    ) -> impl Future<
        Output = Order<ExchangeId, InstrumentNameExchange, Result<Open, UnindexedOrderError>>,
    > + Send {
        self.0.open_order(request)
    }
    fn fetch_balances(
        &self,
    ) -> impl Future<Output = Result<Vec<AssetBalance<AssetNameExchange>>, UnindexedClientError>> {
        self.0.fetch_balances()
    }
    fn fetch_open_orders(
        &self,
    ) -> impl Future<
        Output = Result<Vec<Order<ExchangeId, InstrumentNameExchange, Open>>, UnindexedClientError>,
    > {
        self.0.fetch_open_orders()
    }
    fn fetch_trades(
        &self,
        t: DateTime<Utc>,
    ) -> impl Future<Output = Result<Vec<Trade<QuoteAsset, InstrumentNameExchange>>, UnindexedClientError>> {
        self.0.fetch_trades(t)
    }
}
