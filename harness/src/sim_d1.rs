//! Sim D1 — reconnecting streams and merge (C12) on a paused, seeded tokio runtime.
//!
//! Real: `init_reconnecting_stream`, `with_reconnect_backoff`, `with_termination_on_error`,
//! `with_reconnection_events`, `with_error_handler`, `forward_to`, `merge`.
//! Stub: the connection script (init outcomes, item/error sequences, virtual delays).
//! Oracle: a small interpreter of the script.

use crate::{
    kit::{ExecCtx, Log, Outcome, RunStats, Sim, Violation, report, rng::Rng},
    sim_client::paused_runtime,
};
use barter_data::streams::{
    consumer::StreamKey,
    reconnect::{
        Event,
        stream::{ReconnectingStream, ReconnectionBackoffPolicy, init_reconnecting_stream},
    },
};
use barter_instrument::exchange::ExchangeId;
use barter_integration::{channel::mpsc_unbounded, stream::merge::merge};
use futures::StreamExt;
use serde::{Deserialize, Serialize};
use std::{
    sync::{Arc, Mutex},
    time::Duration,
};

#[derive(Clone, Debug, Serialize, Deserialize, PartialEq)]
pub enum ItemD {
    Ok(u32),
    ErrNonTerminal(u32),
    ErrTerminal(u32),
}

#[derive(Clone, Debug, Serialize, Deserialize, PartialEq)]
pub enum AttemptD {
    InitFail { after_ms: u64 },
    InitOk { after_ms: u64, items: Vec<(u64, ItemD)>, end_after_ms: u64 },
}

#[derive(Clone, Debug, Serialize, Deserialize)]
pub struct MergeSc {
    /// (delay before item, value); stream ends `end_after` ms after the last item
    pub left: Vec<(u64, u32)>,
    pub left_end_after: u64,
    pub right: Vec<(u64, u32)>,
    pub right_end_after: u64,
    /// the left input reaches `merge` through a channel: a `forward_to` task feeds an `UnboundedTx`
    /// and `merge` polls the `UnboundedRx` as a stream (how the execution manager's response channel
    /// and the engine feed are consumed)
    #[serde(default)]
    pub via_channel: bool,
}

/// One scripted websocket of the builders sub-batch: its successive connections.
#[derive(Clone, Debug, Serialize, Deserialize)]
pub struct SocketSc {
    /// 0 or 1: which exchange channel of the `StreamBuilder` this socket forwards into
    pub exchange: usize,
    /// per connection: (initialisation takes ms, items as (delay, id), ends ms after the last item,
    /// number of failed initialisation attempts before the one that succeeds - never for the first
    /// connection); the last connection of a socket stays open
    pub conns: Vec<(u64, Vec<(u64, u32)>, u64, u8)>,
}

#[derive(Clone, Debug, Serialize, Deserialize)]
pub struct ScenarioD1 {
    /// builders sub-batch: scripted sockets forwarding into `StreamBuilder` exchange channels, read
    /// through `StreamBuilder::init` and `MultiStreamBuilder::{add, init}`
    #[serde(default)]
    pub sockets: Vec<SocketSc>,
    pub initial_ms: u64,
    pub multiplier: u8,
    pub max_ms: u64,
    pub attempts: Vec<AttemptD>,
    pub handler: bool,
    pub tokio_seed: u64,
    /// forward_to variant: drop the receiver at this instant
    pub drop_rx_at: Option<u64>,
    pub merge: Option<MergeSc>,
    /// mock-client sub-batch: the connections are the account streams of the real `MockExecution`
    /// client over its broadcast channel, which a consumer that falls behind overflows
    #[serde(default)]
    pub overflow: Option<OverflowSc>,
}

#[derive(Clone, Debug, Serialize, Deserialize)]
pub struct OverflowSc {
    pub capacity: usize,
    /// events published and consumed one by one first
    pub before: usize,
    /// events published while the consumer does not poll
    pub burst: usize,
    /// events published once the stream has gone quiet again
    pub after: usize,
}

#[derive(Debug, Clone, PartialEq)]
pub struct SimErr {
    v: u32,
    terminal: bool,
}

#[derive(Debug, Clone, PartialEq)]
enum Out {
    Item(u32),
    Err(u32),
    Reconnecting,
}

pub struct SimD1;

fn o_cap(sc: &ScenarioD1) -> usize {
    sc.overflow.as_ref().map_or(0, |o| o.capacity)
}
fn o_before(sc: &ScenarioD1) -> usize {
    sc.overflow.as_ref().map_or(0, |o| o.before)
}
fn o_burst(sc: &ScenarioD1) -> usize {
    sc.overflow.as_ref().map_or(0, |o| o.burst)
}
fn o_after(sc: &ScenarioD1) -> usize {
    sc.overflow.as_ref().map_or(0, |o| o.after)
}

struct ScriptState {
    next: usize,
    calls: Vec<u64>,
}

fn conn_stream(items: Vec<(u64, ItemD)>, end_after: u64) -> impl futures::Stream<Item = Result<u32, SimErr>> + Send {
    futures::stream::unfold((items.into_iter(), end_after, false), |(mut it, end_after, done)| async move {
        if done {
            return None;
        }
        match it.next() {
            Some((d, item)) => {
                if d > 0 {
                    tokio::time::sleep(Duration::from_millis(d)).await;
                }
                let out = match item {
                    ItemD::Ok(v) => Ok(v),
                    ItemD::ErrNonTerminal(v) => Err(SimErr { v, terminal: false }),
                    ItemD::ErrTerminal(v) => Err(SimErr { v, terminal: true }),
                };
                Some((out, (it, end_after, false)))
            }
            None => {
                if end_after > 0 {
                    tokio::time::sleep(Duration::from_millis(end_after)).await;
                }
                None
            }
        }
    })
}

/// What the statement says the composed stream must output, and when init must be called.
struct Expected {
    first_init_fails: bool,
    outs: Vec<(u64, Out)>,
    handler_errs: Vec<u32>,
    init_calls: Vec<u64>,
    /// instant after which the script is exhausted (stream must stay pending)
    quiet_from: u64,
}

fn interpret(sc: &ScenarioD1) -> Expected {
    let mut e = Expected {
        first_init_fails: false,
        outs: vec![],
        handler_errs: vec![],
        init_calls: vec![],
        quiet_from: 0,
    };
    let mut t = 0u64;
    let mut backoff = sc.initial_ms;
    for (k, a) in sc.attempts.iter().enumerate() {
        e.init_calls.push(t);
        match a {
            AttemptD::InitFail { after_ms } => {
                t += after_ms;
                if k == 0 {
                    e.first_init_fails = true;
                    e.quiet_from = t;
                    return e;
                }
                // wait, then multiply up to the maximum
                t += backoff;
                backoff = backoff.saturating_mul(sc.multiplier as u64).min(sc.max_ms);
            }
            AttemptD::InitOk { after_ms, items, end_after_ms } => {
                t += after_ms;
                backoff = sc.initial_ms;
                let mut ended_by_terminal = false;
                for (d, it) in items {
                    t += d;
                    match it {
                        ItemD::Ok(v) => e.outs.push((t, Out::Item(*v))),
                        ItemD::ErrNonTerminal(v) => {
                            // (the forward_to variant is composed without the error handler)
                            if sc.handler && sc.drop_rx_at.is_none() {
                                e.handler_errs.push(*v);
                            } else {
                                e.outs.push((t, Out::Err(*v)));
                            }
                        }
                        ItemD::ErrTerminal(_) => {
                            ended_by_terminal = true;
                            break;
                        }
                    }
                }
                if !ended_by_terminal {
                    t += end_after_ms;
                }
                e.outs.push((t, Out::Reconnecting));
            }
        }
    }
    // script exhausted: one more init call is made, which never completes
    e.init_calls.push(t);
    e.quiet_from = t;
    e
}

impl Sim for SimD1 {
    type Scenario = ScenarioD1;

    fn name(&self) -> &'static str {
        "D1:reconnecting-streams+merge(virtual time)"
    }
    fn property(&self) -> &'static str {
        "C12"
    }
    fn sub_batches(&self) -> Vec<&'static str> {
        vec![
            "connections_end_cleanly(no init failure, no errors)",
            "init_failures_terminal_and_non_terminal_errors",
            "merge_two_streams",
            "sockets_through_stream_builders",
            "mock_client_account_connection_overflows",
        ]
    }
    fn default_runs(&self) -> (u64, u64) {
        (2_000_000, 50_000_000)
    }

    fn plan(&self, rng: &mut Rng, sub: usize) -> ScenarioD1 {
        let initial_ms = *rng.pick(&[1u64, 5, 125, 1000]);
        let multiplier = *rng.pick(&[1u8, 2, 2, 3, 10]);
        let max_ms = initial_ms * *rng.pick(&[1u64, 2, 8, 64, 120]);
        let mut next_v = 0u32;
        let mut val = || {
            next_v += 1;
            next_v
        };
        let mut attempts = Vec::new();
        let mut merge_sc = None;
        let mut sockets = Vec::new();
        let mut overflow = None;
        if sub == 4 {
            let capacity = *rng.pick(&[1usize, 2, 4, 8, 16]);
            overflow = Some(OverflowSc {
                capacity,
                before: rng.usize(4),
                burst: *rng.pick(&[0usize, 1, capacity, capacity + 1, 2 * capacity + 1, 3 * capacity + 2]),
                after: 1 + rng.usize(4),
            });
        } else if sub == 3 {
            let n_sock = 2 + rng.usize(2);
            for _ in 0..n_sock {
                let n_conn = 1 + rng.usize(4);
                let conns = (0..n_conn)
                    .map(|_| {
                        let m = rng.usize(4);
                        let items = (0..m).map(|_| (*rng.pick(&[0u64, 0, 1, 3, 20]), val())).collect();
                        (*rng.pick(&[0u64, 0, 1, 30]), items, *rng.pick(&[0u64, 0, 0, 2, 50]), if rng.chance(1, 4) { 1 + rng.below(3) as u8 } else { 0 })
                    })
                    .collect();
                sockets.push(SocketSc { exchange: rng.usize(2), conns });
            }
        } else if sub == 2 {
            let mut side = |rng: &mut Rng| -> (Vec<(u64, u32)>, u64) {
                let n = rng.usize(8);
                let v = (0..n).map(|_| (*rng.pick(&[0u64, 0, 1, 1, 2, 5]), val())).collect();
                (v, *rng.pick(&[0u64, 1, 3, 10]))
            };
            let (left, left_end_after) = side(rng);
            let (right, right_end_after) = side(rng);
            merge_sc = Some(MergeSc {
                left,
                left_end_after,
                right,
                right_end_after,
                via_channel: rng.chance(1, 3),
            });
        } else {
            let n = 1 + rng.usize(7);
            for k in 0..n {
                let fail = sub == 1 && rng.chance(if k == 0 { 1 } else { 3 }, 8);
                if fail {
                    // bursts long enough to reach the cap
                    let burst = if k > 0 && rng.chance(1, 3) { 3 + rng.usize(6) } else { 1 };
                    for _ in 0..burst {
                        attempts.push(AttemptD::InitFail {
                            after_ms: *rng.pick(&[0u64, 1, 20]),
                        });
                    }
                } else {
                    let m = rng.usize(6);
                    let mut items = Vec::new();
                    for _ in 0..m {
                        let d = *rng.pick(&[0u64, 0, 1, 3, 50]);
                        let it = if sub == 1 {
                            match rng.below(8) {
                                0 => ItemD::ErrNonTerminal(val()),
                                1 => ItemD::ErrTerminal(val()),
                                _ => ItemD::Ok(val()),
                            }
                        } else {
                            ItemD::Ok(val())
                        };
                        items.push((d, it));
                    }
                    attempts.push(AttemptD::InitOk {
                        after_ms: *rng.pick(&[0u64, 1, 30]),
                        items,
                        end_after_ms: *rng.pick(&[0u64, 0, 2, 100]),
                    });
                }
            }
        }
        ScenarioD1 {
            sockets,
            initial_ms,
            multiplier,
            max_ms,
            attempts,
            handler: sub == 1 && rng.chance(1, 3),
            tokio_seed: rng.next_u64(),
            drop_rx_at: if sub == 1 && rng.chance(1, 8) { Some(rng.below(300)) } else { None },
            merge: merge_sc,
            overflow,
        }
    }

    fn execute(&self, sc: &ScenarioD1, ctx: &ExecCtx<'_>) -> Outcome {
        let pid = "C12";
        let mut log = Log::new(ctx.keep_log);
        let mut stats = RunStats::default();
        let mut violation: Option<Violation> = None;
        macro_rules! fail {
            ($l:lifetime, $rule:expr, $step:expr, $($arg:tt)*) => {{
                violation = report(ctx, &mut stats, pid, $rule, $step, format!($($arg)*), None);
                if violation.is_some() {
                    break $l;
                }
            }};
        }
        let rt = paused_runtime(sc.tokio_seed);

        if !sc.sockets.is_empty() {
            // ------------------------------------------------ sockets -> StreamBuilder -> MultiStreamBuilder
            use barter_data::{
                error::DataError,
                event::MarketEvent,
                streams::{
                    builder::{StreamBuilder, multi::MultiStreamBuilder},
                    consumer::MarketStreamResult,
                },
                subscription::trade::{PublicTrade, PublicTrades},
            };
            use barter_integration::channel::Channel;
            type ItemB = Result<MarketEvent<u32, PublicTrade>, DataError>;
            type OutB = MarketStreamResult<u32, PublicTrade>;
            const EXB: [ExchangeId; 2] = [ExchangeId::BinanceSpot, ExchangeId::Kraken];
            // expected instants
            struct ExpSock {
                items: Vec<(u64, u32, usize)>, // (instant, id, connection)
                ends: Vec<u64>,
            }
            let exp: Vec<ExpSock> = sc
                .sockets
                .iter()
                .map(|s| {
                    let mut t = 0u64;
                    let mut items = Vec::new();
                    let mut ends = Vec::new();
                    let n = s.conns.len();
                    for (c, (init_ms, its, end_after, fails)) in s.conns.iter().enumerate() {
                        // failed re-initialisations first: each fails at once and is followed by this
                        // socket's own backoff (initial, then multiplied up to the maximum)
                        let mut backoff = sc.initial_ms;
                        for _ in 0..(if c == 0 { 0 } else { *fails }) {
                            t += backoff;
                            backoff = backoff.saturating_mul(sc.multiplier as u64).min(sc.max_ms);
                        }
                        t += init_ms;
                        for (d, id) in its {
                            t += d;
                            items.push((t, *id, c));
                        }
                        if c + 1 < n {
                            t += end_after;
                            ends.push(t);
                        }
                    }
                    ExpSock { items, ends }
                })
                .collect();
            // the builders hand out their streams only after every socket's first initialisation:
            // whatever a faster socket produced earlier waits in its exchange channel until then
            let t0 = sc.sockets.iter().filter_map(|s| s.conns.first().map(|c| c.0)).max().unwrap_or(0);
            if sc.sockets.iter().any(|s| s.conns.iter().skip(1).any(|c| c.3 > 0)) {
                stats.fault("init_failure");
            }
            let horizon = exp.iter().flat_map(|e| e.items.iter().map(|x| x.0).chain(e.ends.iter().copied())).max().unwrap_or(0) + 1_000;
            let policy = ReconnectionBackoffPolicy { backoff_ms_initial: sc.initial_ms, backoff_multiplier: sc.multiplier, backoff_ms_max: sc.max_ms };
            let sockets = sc.sockets.clone();
            let result: Result<Vec<(usize, u64, Option<u32>)>, String> = rt.block_on(async move {
                let start = tokio::time::Instant::now();
                let mut builder = StreamBuilder::<u32, PublicTrades> { channels: std::collections::HashMap::new(), futures: Vec::new() };
                for (si, s) in sockets.into_iter().enumerate() {
                    let ex = EXB[s.exchange.min(1)];
                    let exchange_tx = builder.channels.entry(ex).or_insert_with(Channel::<OutB>::new).tx.clone();
                    let n = s.conns.len();
                    let mut script: std::collections::VecDeque<(usize, Option<(u64, Vec<(u64, u32)>, u64)>)> = std::collections::VecDeque::new();
                    for (c, (init_ms, items, end_after, fails)) in s.conns.into_iter().enumerate() {
                        for _ in 0..(if c == 0 { 0 } else { fails }) {
                            script.push_back((c, None));
                        }
                        script.push_back((c, Some((init_ms, items, end_after))));
                    }
                    let queue = Arc::new(Mutex::new(script));
                    let policy = policy.clone();
                    // what StreamBuilder::subscribe queues, with the socket script as initialiser
                    builder.futures.push(Box::pin(async move {
                        let key = StreamKey::new("market_stream", ex, Some("public_trades"));
                        let init = move || {
                            let next = queue.lock().unwrap().pop_front();
                            async move {
                                let Some((c, attempt)) = next else {
                                    return std::future::pending::<Result<futures::stream::BoxStream<'static, ItemB>, DataError>>().await;
                                };
                                let Some((init_ms, items, end_after)) = attempt else {
                                    return Err(DataError::Socket("sim: re-connect failed".into()));
                                };
                                if init_ms > 0 {
                                    tokio::time::sleep(Duration::from_millis(init_ms)).await;
                                }
                                let last = c + 1 == n;
                                let s = futures::stream::unfold((items.into_iter(), false), move |(mut it, done)| async move {
                                    if done {
                                        return None;
                                    }
                                    match it.next() {
                                        Some((d, id)) => {
                                            if d > 0 {
                                                tokio::time::sleep(Duration::from_millis(d)).await;
                                            }
                                            let ev: ItemB = Ok(MarketEvent {
                                                time_exchange: Default::default(),
                                                time_received: Default::default(),
                                                exchange: ex,
                                                instrument: si as u32,
                                                kind: PublicTrade { id: id.to_string(), price: 1.0, amount: 1.0, side: barter_instrument::Side::Buy },
                                            });
                                            Some((ev, (it, false)))
                                        }
                                        None if last => std::future::pending().await,
                                        None => {
                                            if end_after > 0 {
                                                tokio::time::sleep(Duration::from_millis(end_after)).await;
                                            }
                                            None
                                        }
                                    }
                                });
                                Ok(s.boxed())
                            }
                        };
                        let stream = init_reconnecting_stream(init)
                            .await?
                            .with_reconnect_backoff(policy, key)
                            .with_termination_on_error(|e: &DataError| e.is_terminal(), key)
                            .with_reconnection_events(ex);
                        tokio::spawn(stream.forward_to(exchange_tx));
                        Ok(())
                    }));
                }
                let mut streams = MultiStreamBuilder::<OutB>::new()
                    .add(builder)
                    .init()
                    .await
                    .map_err(|e| format!("MultiStreamBuilder::init failed: {e}"))?;
                let mut outs: Vec<(usize, u64, Option<u32>)> = Vec::new();
                let mut merged = futures::stream::select_all(EXB.iter().enumerate().filter_map(|(e, x)| {
                    streams.streams.remove(x).map(|rx| rx.into_stream().map(move |o| (e, o)).boxed())
                }));
                loop {
                    match tokio::time::timeout_at(start + Duration::from_millis(horizon), merged.next()).await {
                        Ok(Some((e, Event::Reconnecting(_)))) => outs.push((e, start.elapsed().as_millis() as u64, None)),
                        Ok(Some((e, Event::Item(Ok(m))))) => outs.push((e, start.elapsed().as_millis() as u64, m.kind.id.parse().ok())),
                        Ok(Some((_, Event::Item(Err(_))))) => {}
                        _ => break,
                    }
                }
                Ok(outs)
            });
            drop(rt);
            stats.steps = exp.iter().map(|e| e.items.len() as u64).sum();
            stats.sim_time_ms = horizon;
            #[allow(clippy::never_loop)]
            'b: loop {
                let outs = match &result {
                    Err(e) => {
                        fail!('b, "B0_builders_init", 0, "{e}");
                        break 'b;
                    }
                    Ok(o) => o,
                };
                for (e, t, v) in outs {
                    log.line(|| format!("t={t} exchange {e} -> {v:?}"));
                    log.sig(if v.is_some() { "i" } else { "R" });
                }
                for (si, (s, x)) in sc.sockets.iter().zip(exp.iter()).enumerate() {
                    let e = s.exchange.min(1);
                    // every item of the socket once, in order, at its instant, on its exchange's stream
                    let got: Vec<(u64, u32)> = outs.iter().filter(|(ee, _, v)| *ee == e && v.is_some_and(|id| x.items.iter().any(|i| i.1 == id))).map(|(_, t, v)| (*t, v.unwrap())).collect();
                    let want: Vec<(u64, u32)> = x.items.iter().map(|i| (i.0.max(t0), i.1)).collect();
                    if got != want {
                        fail!('b, "B1_items_once_in_order", si, "socket {si} (exchange {e}): builder output carries {got:?}, the socket script delivers {want:?}");
                    }
                    if outs.iter().any(|(ee, _, v)| *ee != e && v.is_some_and(|id| x.items.iter().any(|i| i.1 == id))) {
                        fail!('b, "B1_items_once_in_order", si, "socket {si}: an item surfaced on the other exchange's stream");
                    }
                    // before the first item of connection c, the socket's own c notices are out
                    for (t, id, c) in &x.items {
                        let pos = outs.iter().position(|(_, _, v)| *v == Some(*id)).unwrap_or(0);
                        let notices_before = outs[..pos].iter().filter(|(ee, _, v)| *ee == e && v.is_none()).count();
                        if notices_before < *c {
                            fail!('b, "B2_one_notice_per_dropped_connection", si, "socket {si}: item {id} of its connection {c} (t={t}) is preceded by only {notices_before} reconnecting notices on exchange {e}");
                        }
                    }
                    if !x.ends.is_empty() {
                        stats.fault("connection_end");
                    }
                }
                for e in 0..2 {
                    let mut want: Vec<u64> = sc.sockets.iter().zip(exp.iter()).filter(|(s, _)| s.exchange.min(1) == e).flat_map(|(_, x)| x.ends.iter().map(|t| (*t).max(t0))).collect();
                    want.sort();
                    let got: Vec<u64> = outs.iter().filter(|(ee, _, v)| *ee == e && v.is_none()).map(|(_, t, _)| *t).collect();
                    if got != want {
                        fail!('b, "B2_one_notice_per_dropped_connection", e, "exchange {e}: connections dropped at {want:?} ms, reconnecting notices delivered at {got:?} ms");
                    }
                    if want.windows(2).any(|w| w[0] == w[1]) {
                        stats.probe("two_connections_dropped_same_instant");
                    }
                    if sc.sockets.iter().filter(|s| s.exchange.min(1) == e).count() > 1 {
                        stats.probe("sockets_share_exchange_channel");
                    }
                }
                break;
            }
            return Outcome { violation, stats, log_hash: log.hash(), signature: log.signature(), log: log.lines };
        }

        if let Some(o) = &sc.overflow {
            // ------------------------------------------ MockExecution account stream, overflowing
            use barter_execution::{
                AccountEvent, AccountEventKind, UnindexedAccountEvent,
                balance::{AssetBalance, Balance},
                client::{
                    ExecutionClient,
                    mock::{MockExecution, MockExecutionClientConfig},
                },
                exchange::mock::request::MockExchangeRequest,
            };
            use barter_integration::snapshot::Snapshot;
            use rust_decimal::Decimal;
            let o = o.clone();
            let (initial_ms, multiplier, max_ms) = (sc.initial_ms, sc.multiplier, sc.max_ms);
            let outs: Result<Vec<Out>, String> = rt.block_on(async move {
                let (event_tx, event_rx) = tokio::sync::broadcast::channel::<UnindexedAccountEvent>(o.capacity.max(1));
                let (request_tx, _request_rx) = tokio::sync::mpsc::unbounded_channel::<MockExchangeRequest>();
                let client = <MockExecution<_> as ExecutionClient>::new(MockExecutionClientConfig {
                    mocked_exchange: ExchangeId::Mock,
                    clock: || crate::world::ts(0),
                    request_tx,
                    event_rx,
                });
                let c2 = client.clone();
                let key = StreamKey::new_general("account_stream", ExchangeId::Mock);
                let stream = init_reconnecting_stream(move || {
                    let c = c2.clone();
                    async move { c.account_stream(&[], &[]).await }
                })
                .await
                .map_err(|e| format!("first account_stream failed: {e:?}"))?
                .with_reconnect_backoff(ReconnectionBackoffPolicy { backoff_ms_initial: initial_ms, backoff_multiplier: multiplier, backoff_ms_max: max_ms }, key)
                .with_reconnection_events(ExchangeId::Mock);
                let mut stream = Box::pin(stream);
                let publish = |id: u32| {
                    let _ = event_tx.send(AccountEvent {
                        exchange: ExchangeId::Mock,
                        kind: AccountEventKind::BalanceSnapshot(Snapshot(AssetBalance {
                            asset: "usdt".into(),
                            balance: Balance::new(Decimal::from(id), Decimal::from(id)),
                            time_exchange: crate::world::ts(id as i64),
                        })),
                    });
                };
                let mut outs: Vec<Out> = Vec::new();
                let mut id = 0u32;
                macro_rules! drain {
                    ($quiet_ms:expr) => {
                        while let Ok(Some(ev)) = tokio::time::timeout(Duration::from_millis($quiet_ms), stream.next()).await {
                            outs.push(match ev {
                                Event::Reconnecting(_) => Out::Reconnecting,
                                Event::Item(e) => match e.kind {
                                    AccountEventKind::BalanceSnapshot(b) => Out::Item(b.0.balance.total.to_string().parse().unwrap_or(0)),
                                    _ => Out::Err(0),
                                },
                            });
                        }
                    };
                }
                for _ in 0..o.before {
                    id += 1;
                    publish(id);
                    drain!(1);
                }
                for _ in 0..o.burst {
                    id += 1;
                    publish(id);
                }
                // (long enough for a re-initialisation to complete)
                drain!(50);
                for _ in 0..o.after {
                    id += 1;
                    publish(id);
                    drain!(1);
                }
                drain!(50);
                Ok(outs)
            });
            #[allow(clippy::never_loop)]
            'chk: loop {
                let outs = match outs {
                    Ok(v) => v,
                    Err(e) => {
                        fail!('chk, "R4_stream_ended_by_itself", 0, "{e}");
                        break;
                    }
                };
                log.line(|| format!("capacity {} before {} burst {} after {} -> {:?}", o_cap(sc), o_before(sc), o_burst(sc), o_after(sc), outs));
                let total = (o_before(sc) + o_burst(sc) + o_after(sc)) as u32;
                stats.steps += total as u64;
                if o_burst(sc) > o_cap(sc) {
                    stats.fault("consumer_falls_behind_broadcast_overflows");
                }
                let mut last: Option<u32> = None;
                let mut notice_since_last = false;
                for (k, out) in outs.iter().enumerate() {
                    match out.clone() {
                        Out::Reconnecting => notice_since_last = true,
                        Out::Err(_) => fail!('chk, "R1_items_once_in_order", k, "unexpected account event kind in {outs:?}"),
                        Out::Item(v) => {
                            if last.is_some_and(|l| v <= l) {
                                fail!('chk, "R1_items_once_in_order", k, "event {v} delivered after event {:?}: {outs:?}", last);
                            }
                            let gap = last.map_or(v > 1, |l| v > l + 1);
                            if gap && !notice_since_last {
                                fail!('chk, "R1_items_once_in_order", k, "events between {:?} and {v} were published on the connection and never delivered, yet the connection did not end (no reconnecting notice): {outs:?}", last);
                            }
                            if gap {
                                stats.probe("lagged_connection_ended_with_notice");
                            }
                            last = Some(v);
                            notice_since_last = false;
                        }
                    }
                }
                // whatever is published once the stream is quiet again is delivered
                for v in (total - o_after(sc) as u32 + 1)..=total {
                    if !outs.contains(&Out::Item(v)) {
                        fail!('chk, "R1_items_once_in_order", 0, "event {v}, published while the connection was up and the consumer polling, was not delivered: {outs:?}");
                    }
                }
                if o_burst(sc) <= o_cap(sc) && outs.iter().filter(|x| matches!(x, Out::Item(_))).count() as u32 != total {
                    fail!('chk, "R1_items_once_in_order", 0, "nothing overflowed (burst {} <= capacity {}), yet only {:?} of {total} events were delivered", o_burst(sc), o_cap(sc), outs);
                }
                if o_burst(sc) <= o_cap(sc) && outs.contains(&Out::Reconnecting) {
                    fail!('chk, "R2_one_notice_per_drop", 0, "a reconnecting notice although no connection dropped: {outs:?}");
                }
                break;
            }
            return Outcome { violation, stats, log_hash: log.hash(), signature: log.signature(), log: log.lines };
        }

        if let Some(m) = &sc.merge {
            // ---------------------------------------------------------------- merge
            let (outs, ended_at, stays_ended): (Vec<(u64, u32)>, u64, bool) = rt.block_on(async {
                let start = tokio::time::Instant::now();
                let mk = |items: Vec<(u64, u32)>, end_after: u64| {
                    conn_stream(items.into_iter().map(|(d, v)| (d, ItemD::Ok(v))).collect(), end_after)
                        .map(|r| r.unwrap_or(0))
                };
                let left: std::pin::Pin<Box<dyn futures::Stream<Item = u32> + Send>> = if m.via_channel {
                    let (tx, rx) = mpsc_unbounded::<u32>();
                    tokio::spawn(mk(m.left.clone(), m.left_end_after).forward_to(tx));
                    Box::pin(rx)
                } else {
                    Box::pin(mk(m.left.clone(), m.left_end_after))
                };
                let mut s = Box::pin(merge(left, mk(m.right.clone(), m.right_end_after)));
                let mut outs = Vec::new();
                while let Some(v) = s.next().await {
                    outs.push((start.elapsed().as_millis() as u64, v));
                }
                let ended_at = start.elapsed().as_millis() as u64;
                let mut stays = true;
                for _ in 0..3 {
                    let r = tokio::time::timeout(Duration::from_millis(50), s.next()).await;
                    if !matches!(r, Ok(None)) {
                        stays = false;
                    }
                }
                (outs, ended_at, stays)
            });
            drop(rt);
            let times = |v: &Vec<(u64, u32)>, end_after: u64| -> (Vec<(u64, u32)>, u64) {
                let mut t = 0;
                let mut o = Vec::new();
                for (d, x) in v {
                    t += d;
                    o.push((t, *x));
                }
                (o, t + end_after)
            };
            let (le, tl) = times(&m.left, m.left_end_after);
            let (re, tr) = times(&m.right, m.right_end_after);
            let t_end = tl.min(tr);
            stats.steps = (le.len() + re.len()) as u64;
            stats.sim_time_ms = ended_at;
            stats.fault("interleaved_inputs");
            for (t, v) in &outs {
                log.line(|| format!("t={t} merge -> {v}"));
                log.sig(if le.iter().any(|x| x.1 == *v) { "L" } else { "R" });
            }
            #[allow(clippy::never_loop)]
            'm: loop {
                if ended_at != t_end {
                    fail!('m, "M3_merge_end", 0, "merged stream ended at {ended_at} ms; inputs end at {tl} / {tr} ms, so it must end at {t_end} ms");
                }
                if !stays_ended {
                    fail!('m, "M3_merge_end", 0, "merged stream yielded again after it had ended");
                }
                for (name, exp, own_end, other_end) in [("left", &le, tl, tr), ("right", &re, tr, tl)] {
                    let got: Vec<(u64, u32)> = outs.iter().filter(|(_, v)| exp.iter().any(|x| x.1 == *v)).cloned().collect();
                    // everything emitted strictly before the merged stream ends - and, for the input
                    // whose own end is what ends it, everything it emitted at all
                    let must: Vec<(u64, u32)> = exp.iter().filter(|(t, _)| *t < t_end || own_end < other_end).cloned().collect();
                    let may: Vec<(u64, u32)> = exp.iter().filter(|(t, _)| *t <= t_end).cloned().collect();
                    // got must be a prefix of `may` that contains all of `must`
                    if got.len() < must.len() || got.len() > may.len() || got[..] != may[..got.len()] {
                        fail!('m, "M1_merge_order_and_completeness", 0, "{name} input: merged output carries {got:?}; emitted strictly before the end ({t_end} ms): {must:?}; emitted up to the end: {may:?}");
                    }
                }
                if outs.len() != outs.iter().map(|x| x.1).collect::<std::collections::BTreeSet<_>>().len() {
                    fail!('m, "M2_merge_duplicate", 0, "merged output repeats an item: {outs:?}");
                }
                let mut ts: Vec<u64> = le.iter().chain(re.iter()).map(|x| x.0).collect();
                ts.sort();
                if ts.windows(2).any(|w| w[0] == w[1]) {
                    stats.probe("merge_tie");
                }
                if tl == tr {
                    stats.probe("both_inputs_end_same_instant");
                }
                break;
            }
            return Outcome {
                violation,
                stats,
                log_hash: log.hash(),
                signature: log.signature(),
                log: log.lines,
            };
        }

        // -------------------------------------------------------------------- reconnecting stream
        let exp = interpret(sc);
        let horizon = exp.quiet_from + 5_000;
        let script = Arc::new(Mutex::new(ScriptState { next: 0, calls: vec![] }));
        let attempts = Arc::new(sc.attempts.clone());
        let handler_log: Arc<Mutex<Vec<u32>>> = Arc::new(Mutex::new(Vec::new()));
        #[allow(clippy::type_complexity)]
        let (first_err, outs, ended, calls, forward_done_at): (bool, Vec<(u64, Out)>, Option<u64>, Vec<u64>, Option<u64>) = rt.block_on(async {
            let start = tokio::time::Instant::now();
            let script2 = script.clone();
            let attempts2 = attempts.clone();
            let init = move || {
                let script = script2.clone();
                let attempts = attempts2.clone();
                async move {
                    let a = {
                        let mut s = script.lock().unwrap();
                        s.calls.push(start.elapsed().as_millis() as u64);
                        let a = attempts.get(s.next).cloned();
                        s.next += 1;
                        a
                    };
                    match a {
                        None => std::future::pending::<Result<_, String>>().await,
                        Some(AttemptD::InitFail { after_ms }) => {
                            if after_ms > 0 {
                                tokio::time::sleep(Duration::from_millis(after_ms)).await;
                            }
                            Err("sim init failure".to_string())
                        }
                        Some(AttemptD::InitOk { after_ms, items, end_after_ms }) => {
                            if after_ms > 0 {
                                tokio::time::sleep(Duration::from_millis(after_ms)).await;
                            }
                            Ok(Box::pin(conn_stream(items, end_after_ms)))
                        }
                    }
                }
            };
            let policy = ReconnectionBackoffPolicy {
                backoff_ms_initial: sc.initial_ms,
                backoff_multiplier: sc.multiplier,
                backoff_ms_max: sc.max_ms,
            };
            let key = StreamKey::new_general("sim_stream", ExchangeId::Other);
            // (an empty script - possible after shrinking - never completes the first initialisation)
            let first = tokio::time::timeout_at(start + Duration::from_millis(horizon), init_reconnecting_stream(init)).await;
            let stream = match first {
                Err(_) => return (false, vec![], None, script.lock().unwrap().calls.clone(), None),
                Ok(Err(_)) => return (true, vec![], None, script.lock().unwrap().calls.clone(), None),
                Ok(Ok(s)) => s,
            };
            let composed = stream
                .with_reconnect_backoff::<_, String>(policy, key)
                .with_termination_on_error(|e: &SimErr| e.terminal, key)
                .with_reconnection_events(ExchangeId::Other);
            let hl = handler_log.clone();
            let mut outs: Vec<(u64, Out)> = Vec::new();
            let mut ended: Option<u64> = None;
            let mut forward_done_at: Option<u64> = None;
            let deadline = start + Duration::from_millis(horizon);
            if let Some(drop_at) = sc.drop_rx_at {
                // forward_to variant: items go through a channel whose receiver is dropped at drop_at
                let (tx, mut rx) = mpsc_unbounded::<Event<ExchangeId, Result<u32, SimErr>>>();
                let fwd = tokio::spawn(composed.forward_to(tx));
                let drop_deadline = start + Duration::from_millis(drop_at);
                loop {
                    match tokio::time::timeout_at(drop_deadline, rx.rx.recv()).await {
                        Ok(Some(ev)) => outs.push((start.elapsed().as_millis() as u64, to_out(ev))),
                        Ok(None) => {
                            ended = Some(start.elapsed().as_millis() as u64);
                            break;
                        }
                        Err(_) => break,
                    }
                }
                drop(rx);
                if tokio::time::timeout_at(deadline, fwd).await.is_ok() {
                    forward_done_at = Some(start.elapsed().as_millis() as u64);
                }
            } else if sc.handler {
                let mut s = Box::pin(composed.with_error_handler(move |e: SimErr| hl.lock().unwrap().push(e.v)));
                loop {
                    match tokio::time::timeout_at(deadline, s.next()).await {
                        Ok(Some(ev)) => outs.push((
                            start.elapsed().as_millis() as u64,
                            match ev {
                                Event::Item(v) => Out::Item(v),
                                Event::Reconnecting(_) => Out::Reconnecting,
                            },
                        )),
                        Ok(None) => {
                            ended = Some(start.elapsed().as_millis() as u64);
                            break;
                        }
                        Err(_) => break,
                    }
                }
            } else {
                let mut s = Box::pin(composed);
                loop {
                    match tokio::time::timeout_at(deadline, s.next()).await {
                        Ok(Some(ev)) => outs.push((start.elapsed().as_millis() as u64, to_out(ev))),
                        Ok(None) => {
                            ended = Some(start.elapsed().as_millis() as u64);
                            break;
                        }
                        Err(_) => break,
                    }
                }
            }
            (false, outs, ended, script.lock().unwrap().calls.clone(), forward_done_at)
        });
        drop(rt);
        stats.steps = sc.attempts.len() as u64;
        stats.sim_time_ms = horizon;
        for (t, o) in &outs {
            log.line(|| format!("t={t} -> {o:?}"));
            log.sig(match o {
                Out::Item(_) => "i",
                Out::Err(_) => "e",
                Out::Reconnecting => "R",
            });
        }
        log.line(|| format!("init calls at {calls:?}"));

        #[allow(clippy::never_loop)]
        'r: loop {
            // fault / probe accounting from the script
            let mut consecutive = 0u64;
            let mut backoff = sc.initial_ms;
            for (k, a) in sc.attempts.iter().enumerate() {
                match a {
                    AttemptD::InitFail { .. } => {
                        stats.fault("init_failure");
                        if k > 0 {
                            consecutive += 1;
                            if backoff >= sc.max_ms && consecutive > 1 {
                                stats.probe("backoff_cap_reached");
                            }
                            backoff = backoff.saturating_mul(sc.multiplier as u64).min(sc.max_ms);
                        }
                    }
                    AttemptD::InitOk { items, .. } => {
                        if consecutive > 0 {
                            stats.probe("backoff_reset_after_success");
                        }
                        consecutive = 0;
                        backoff = sc.initial_ms;
                        if items.is_empty() {
                            stats.probe("empty_connection");
                        }
                        for (_, it) in items {
                            match it {
                                ItemD::ErrTerminal(_) => {
                                    stats.fault("terminal_error");
                                    stats.probe("terminal_error_mid_stream");
                                }
                                ItemD::ErrNonTerminal(_) => stats.fault("non_terminal_error"),
                                _ => {}
                            }
                        }
                        stats.fault("connection_end");
                    }
                }
            }
            if exp.first_init_fails {
                if !first_err {
                    fail!('r, "R0_first_init_failure_is_an_error", 0, "first initialisation fails but init_reconnecting_stream returned a stream");
                }
                if calls.len() != 1 {
                    fail!('r, "R0_first_init_failure_is_an_error", 0, "first initialisation failed yet init was called {} times", calls.len());
                }
                break;
            }
            if first_err {
                fail!('r, "R0_first_init_failure_is_an_error", 0, "init_reconnecting_stream failed although the first initialisation succeeds");
            }
            if let Some(drop_at) = sc.drop_rx_at {
                stats.fault("receiver_dropped");
                // everything expected strictly before the drop instant was forwarded, in order
                let must: Vec<&(u64, Out)> = exp.outs.iter().filter(|(t, _)| *t < drop_at).collect();
                let may: Vec<&(u64, Out)> = exp.outs.iter().filter(|(t, _)| *t <= drop_at).collect();
                let ok = outs.len() >= must.len() && outs.len() <= may.len() && outs.iter().zip(may.iter()).all(|(a, b)| a == *b);
                if !ok {
                    fail!('r, "R1_items_once_in_order", outs.len(), "forward_to: receiver got {outs:?} before being dropped at {drop_at} ms, script says {:?}", may);
                }
                // forward_to must finish once the receiver is gone and another item arrives
                let more_after = exp.outs.iter().any(|(t, _)| *t > drop_at);
                if more_after && forward_done_at.is_none() {
                    fail!('r, "R5_forward_to_does_not_stop", 0, "receiver dropped at {drop_at} ms and more items followed, but forward_to never finished");
                }
                if more_after {
                    stats.probe("forward_to_stopped_after_receiver_drop");
                }
                break;
            }
            if let Some(t) = ended {
                fail!('r, "R4_stream_ended_by_itself", outs.len(), "the reconnecting stream yielded None at {t} ms");
            }
            if outs != exp.outs {
                let k = outs.iter().zip(exp.outs.iter()).position(|(a, b)| a != b).unwrap_or(outs.len().min(exp.outs.len()));
                fail!(
                    'r,
                    "R1_items_once_in_order",
                    k,
                    "output differs from the script at position {k}: got {:?}, expected {:?} (full output {:?}, expected {:?})",
                    outs.get(k), exp.outs.get(k), outs, exp.outs
                );
            }
            let notices = outs.iter().filter(|(_, o)| *o == Out::Reconnecting).count();
            let conns = sc.attempts.iter().filter(|a| matches!(a, AttemptD::InitOk { .. })).count();
            if notices != conns {
                fail!('r, "R2_one_notice_per_connection", 0, "{notices} reconnecting notices for {conns} connections");
            }
            if sc.handler {
                let h = handler_log.lock().unwrap().clone();
                if h != exp.handler_errs {
                    fail!('r, "R1_errors_to_handler_once", 0, "error handler received {h:?}, script has non-terminal errors {:?}", exp.handler_errs);
                }
            }
            if calls != exp.init_calls {
                let k = calls.iter().zip(exp.init_calls.iter()).position(|(a, b)| a != b).unwrap_or(calls.len().min(exp.init_calls.len()));
                fail!(
                    'r,
                    "R3_backoff_schedule",
                    k,
                    "init call instants {calls:?}, expected {:?} (policy initial {} ms x{} max {} ms)",
                    exp.init_calls, sc.initial_ms, sc.multiplier, sc.max_ms
                );
            }
            break;
        }
        Outcome {
            violation,
            stats,
            log_hash: log.hash(),
            signature: log.signature(),
            log: log.lines,
        }
    }

    fn shrink_len(&self, sc: &ScenarioD1) -> usize {
        if sc.overflow.is_some() {
            return 0;
        }
        if !sc.sockets.is_empty() {
            return sc.sockets.len();
        }
        match &sc.merge {
            Some(m) => m.left.len() + m.right.len(),
            None => sc.attempts.len(),
        }
    }
    fn shrink_remove(&self, sc: &ScenarioD1, from: usize, to: usize) -> ScenarioD1 {
        let mut s = sc.clone();
        if !s.sockets.is_empty() {
            if to - from < s.sockets.len() {
                s.sockets.drain(from..to);
            }
            return s;
        }
        match &mut s.merge {
            Some(m) => {
                let n = m.left.len();
                let (rf, rt) = (from.max(n) - n, to.max(n) - n);
                if rt > rf {
                    m.right.drain(rf..rt.min(m.right.len()));
                }
                if from < n {
                    m.left.drain(from..to.min(n));
                }
            }
            None => {
                s.attempts.drain(from..to);
            }
        }
        s
    }
    fn simplify(&self, sc: &ScenarioD1) -> Vec<ScenarioD1> {
        let mut out = Vec::new();
        for (k, sock) in sc.sockets.iter().enumerate() {
            if sock.conns.len() > 1 {
                let mut s = sc.clone();
                s.sockets[k].conns.pop();
                out.push(s);
            }
            for (c, conn) in sock.conns.iter().enumerate() {
                if !conn.1.is_empty() {
                    let mut s = sc.clone();
                    s.sockets[k].conns[c].1.pop();
                    out.push(s);
                }
            }
        }
        if sc.handler {
            let mut s = sc.clone();
            s.handler = false;
            out.push(s);
        }
        if sc.drop_rx_at.is_some() {
            let mut s = sc.clone();
            s.drop_rx_at = None;
            out.push(s);
        }
        for (k, a) in sc.attempts.iter().enumerate() {
            if let AttemptD::InitOk { items, .. } = a {
                for j in 0..items.len() {
                    let mut s = sc.clone();
                    if let AttemptD::InitOk { items, .. } = &mut s.attempts[k] {
                        items.remove(j);
                    }
                    out.push(s);
                }
            }
        }
        out
    }

    fn rule_text(&self) -> String {
        "each run = one PRNG-planned connection script (per attempt: init fails after d ms | init succeeds after d ms with a finite sequence of items / non-terminal errors / a terminal error, each after its own virtual delay, then end) and backoff policy (initial 1-1000 ms, multiplier 1-10, max up to 120x initial; failure bursts long enough to reach the cap), executed by the real reconnect combinators on a paused tokio runtime and compared with a script interpreter: R0 a failing first initialisation is an error, R1 every item of every connection exactly once, in order, at its exact virtual instant, up to the end or first terminal error, non-terminal errors passed through or handed to the handler once, R2 exactly one reconnecting notice per connection before anything of the next, R3 init-call instants follow initial x multiplier^k capped at max and reset after a success, R4 the stream never ends by itself, R5 forward_to stops once its receiver is gone. Third sub-batch: merge of two scripted inputs with many simultaneous emissions: M1 per-input order and every item emitted strictly before either input ends, M2 no duplicates, M3 ends exactly when either input ends and stays ended. Fourth sub-batch: 2-3 scripted sockets (each a reconnecting stream composed exactly as StreamBuilder::subscribe / init_market_stream compose it) forward into the exchange channels of a real StreamBuilder, read through StreamBuilder::init and MultiStreamBuilder::{add, init}: B1 every item of every socket once, in order, at its instant, on its exchange's stream; B2 one reconnecting notice per dropped connection at the instant it dropped, also when two sockets share an exchange channel and drop together. distinct = distinct output-kind skeleton; non-trivial = a fault (init failure, terminal / non-terminal error, connection end, receiver drop, interleaving) fired AND a probe hit".into()
    }
    fn components_real(&self) -> Vec<&'static str> {
        vec![
            "barter_data::streams::reconnect::stream::{init_reconnecting_stream, ReconnectingStream::{with_reconnect_backoff, with_termination_on_error, with_reconnection_events, with_error_handler, forward_to}, ReconnectionState}",
            "barter_integration::stream::merge::merge",
            "barter_data::streams::builder::{StreamBuilder::init, multi::MultiStreamBuilder::{add, init}} (exchange channels + forwarding tasks)",
            "barter_integration::channel::{mpsc_unbounded, UnboundedTx}",
            "tokio paused clock (backoff sleeps), futures combinators (scan, flatten, repeat_with)",
        ]
    }
    fn components_stub(&self) -> Vec<&'static str> {
        vec!["connection initialiser + connection streams (script interpreter with virtual delays)", "consumer (collector with virtual timestamps; receiver dropped at a seeded instant)"]
    }
    fn fault_kinds(&self) -> Vec<&'static str> {
        vec!["init_failure", "terminal_error", "non_terminal_error", "connection_end", "receiver_dropped", "interleaved_inputs"]
    }
    fn probe_kinds(&self) -> Vec<&'static str> {
        vec![
            "backoff_cap_reached",
            "backoff_reset_after_success",
            "terminal_error_mid_stream",
            "empty_connection",
            "merge_tie",
            "both_inputs_end_same_instant",
            "forward_to_stopped_after_receiver_drop",
            "two_connections_dropped_same_instant",
            "sockets_share_exchange_channel",
        ]
    }
    fn assumptions(&self) -> Vec<String> {
        vec![
            "policies keep initial <= max and max x multiplier < 2^64 (arithmetic overflow is outside the statement)".into(),
            "the consumer polls continuously, so the next initialisation starts at the instant the previous connection ended".into(),
            "merge: an item emitted exactly at the instant the other input ends may or may not be delivered".into(),
        ]
    }
}

fn to_out(ev: Event<ExchangeId, Result<u32, SimErr>>) -> Out {
    match ev {
        Event::Item(Ok(v)) => Out::Item(v),
        Event::Item(Err(e)) => Out::Err(e.v),
        Event::Reconnecting(_) => Out::Reconnecting,
    }
}
