//! Sim G — concurrent backtests (C20).
//!
//! Real: `run_backtests` / `backtest()` (fresh `HistoricalClock`, `ExecutionBuilder::add_mock`,
//! `MockExchange` + `MockExecution`, `ExecutionManager::{init, run}`, `SystemBuild::init` in stream
//! mode, engine `async_run`, `shutdown_after_backtest`, trading summary generation), all on one
//! paused, seeded current-thread tokio runtime. Hooks: H1 (wall clock == virtual clock) and H2
//! (seeded spurious yields of the engine feed).
//! Stub: `BacktestMarketData` (shared dataset, per-backtest seeded pacing), a timing-independent
//! recording strategy, recording instrument / global data.

use crate::{
    kit::{ExecCtx, Log, Outcome, RunStats, Sim, Violation, report, rng::Rng},
    sim_client::paused_runtime,
    world::*,
};
use barter::{
    backtest::{BacktestArgsConstant, BacktestArgsDynamic, market_data::{BacktestMarketData, MarketDataInMemory}, run_backtests},
    engine::{
        Engine, Processor,
        clock::HistoricalClock,
        execution_tx::MultiExchangeTxMap,
        state::{
            EngineState,
            instrument::{data::{DefaultInstrumentMarketData, InstrumentDataState}, filter::InstrumentFilter},
            order::in_flight_recorder::InFlightRequestRecorder,
            trading::TradingState,
        },
    },
    error::BarterError,
    risk::DefaultRiskManager,
    statistic::time::Daily,
    strategy::{
        algo::AlgoStrategy, close_positions::ClosePositionsStrategy, on_disconnect::OnDisconnectStrategy,
        on_trading_disabled::OnTradingDisabled,
    },
    system::config::ExecutionConfig,
};
use barter_data::{
    event::{DataKind, MarketEvent},
    streams::consumer::MarketStreamEvent,
};
use barter_execution::{
    AccountEvent, AccountEventKind, UnindexedAccountSnapshot,
    balance::{AssetBalance, Balance},
    client::mock::MockExecutionConfig,
    order::{
        OrderKind,
        request::{OrderRequestCancel, OrderRequestOpen},
    },
};
use barter_instrument::{
    Keyed, Side,
    asset::{AssetIndex, ExchangeAsset, name::{AssetNameExchange, AssetNameInternal}},
    exchange::{ExchangeId, ExchangeIndex},
    index::IndexedInstruments,
    instrument::InstrumentIndex,
};
use chrono::{DateTime, Utc};
use futures::Stream;
use rust_decimal::Decimal;
use serde::{Deserialize, Serialize};
use smol_str::SmolStr;
use std::{
    cell::Cell,
    sync::{Arc, Mutex, atomic::{AtomicUsize, Ordering}},
    time::Duration,
};

const EX: ExchangeId = ExchangeId::BinanceSpot;
const PAIRS_G: [(&str, &str); 5] = [("btc", "usdt"), ("eth", "usdt"), ("sol", "usdt"), ("ada", "usdt"), ("dot", "usdt")];

// ------------------------------------------------------------------------------------------------
// H1: thread-local virtual wall clock
// ------------------------------------------------------------------------------------------------

thread_local! {
    static VSTART: Cell<Option<tokio::time::Instant>> = const { Cell::new(None) };
}

fn virtual_wall() -> DateTime<Utc> {
    let start = VSTART.with(|s| s.get());
    match start {
        Some(s) => ts(1_000_000) + chrono::TimeDelta::from_std(tokio::time::Instant::now() - s).unwrap_or_default(),
        None => ts(1_000_000),
    }
}

// ------------------------------------------------------------------------------------------------
// Recording data types
// ------------------------------------------------------------------------------------------------

#[derive(Debug, Clone, Default, PartialEq)]
pub struct RecGlobal {
    /// part of the configured initial engine state (7), not of `Default` (0): every backtest must
    /// start from the state it was configured with
    pub marker: u64,
    pub seen: Vec<u64>,
    /// max over the events this engine processed of (exchange time - wall instant it was processed):
    /// no timestamp derived from this backtest's own clock can exceed `ahead + now`
    pub ahead: Option<i64>,
    /// the account event stamped furthest beyond what this backtest's own data can explain
    /// (excess in ms, description)
    pub breach: Option<(i64, String)>,
}

impl RecGlobal {
    fn mark(&mut self, t: chrono::DateTime<chrono::Utc>, check: Option<&str>) {
        let w = ms_of(virtual_wall());
        let t = ms_of(t);
        if let (Some(what), Some(ahead)) = (check, self.ahead) {
            let excess = t - (ahead + w);
            if excess > 0 && self.breach.as_ref().is_none_or(|(e, _)| excess > *e) {
                self.breach = Some((
                    excess,
                    format!("{what} stamped {t} ms at wall instant {w} ms, but the latest this backtest's own events allow is {} ms", ahead + w),
                ));
            }
        }
        self.ahead = Some(self.ahead.map_or(t - w, |a| a.max(t - w)));
    }
}

impl<'a> Processor<&'a MarketEvent<InstrumentIndex, DataKind>> for RecGlobal {
    type Audit = ();
    fn process(&mut self, e: &'a MarketEvent<InstrumentIndex, DataKind>) {
        if let DataKind::Trade(t) = &e.kind {
            self.seen.push(t.id.parse().unwrap_or(u64::MAX));
        }
        self.mark(e.time_exchange, None);
    }
}
impl<'a> Processor<&'a AccountEvent> for RecGlobal {
    type Audit = ();
    fn process(&mut self, e: &'a AccountEvent) {
        match &e.kind {
            AccountEventKind::Trade(t) => self.mark(t.time_exchange, Some("fill")),
            AccountEventKind::BalanceSnapshot(b) => self.mark(b.0.time_exchange, Some("balance snapshot")),
            // every other kind that feeds the historical clock (same mapping as TimeExchange)
            AccountEventKind::Snapshot(s) => {
                if let Some(t) = s.time_most_recent() {
                    self.mark(t, None);
                }
            }
            AccountEventKind::OrderSnapshot(o) => {
                if let Some(t) = o.0.state.time_exchange() {
                    self.mark(t, Some("order report"));
                }
            }
            AccountEventKind::OrderCancelled(c) => {
                if let Ok(x) = &c.state {
                    self.mark(x.time_exchange, Some("cancel confirmation"));
                }
            }
        }
    }
}

#[derive(Debug, Clone, PartialEq)]
pub struct FillRec {
    pub buy: bool,
    pub price: Decimal,
    pub qty: Decimal,
    pub fee: Decimal,
    pub order_id: String,
}

#[derive(Debug, Clone, Default, PartialEq)]
pub struct RecData {
    pub inner: DefaultInstrumentMarketData,
    pub seen: Vec<u64>,
    pub last: Option<(u64, Decimal)>,
    pub acted: Vec<u64>,
    pub fills: Vec<FillRec>,
    /// orders the exchange refused because it does not know the instrument (client order ids)
    pub refused_unknown: Vec<String>,
}

impl InstrumentDataState for RecData {
    type MarketEventKind = DataKind;
    fn price(&self) -> Option<Decimal> {
        self.inner.price()
    }
}

impl<'a> Processor<&'a MarketEvent<InstrumentIndex, DataKind>> for RecData {
    type Audit = ();
    fn process(&mut self, e: &'a MarketEvent<InstrumentIndex, DataKind>) {
        self.inner.process(e);
        if let DataKind::Trade(t) = &e.kind {
            let id = t.id.parse().unwrap_or(u64::MAX);
            self.seen.push(id);
            self.last = Some((id, Decimal::try_from(t.price).unwrap_or_default()));
        }
    }
}

impl<'a> Processor<&'a AccountEvent> for RecData {
    type Audit = ();
    fn process(&mut self, e: &'a AccountEvent) {
        if let AccountEventKind::Trade(t) = &e.kind {
            self.fills.push(FillRec {
                buy: t.side == Side::Buy,
                price: t.price,
                qty: t.quantity,
                fee: t.fees.fees,
                order_id: t.order_id.0.to_string(),
            });
        }
        if let AccountEventKind::OrderSnapshot(o) = &e.kind {
            if let barter_execution::order::state::OrderState::Inactive(barter_execution::order::state::InactiveOrderState::OpenFailed(
                barter_execution::error::OrderError::Rejected(barter_execution::error::ApiError::InstrumentInvalid(..)),
            )) = &o.0.state
            {
                self.refused_unknown.push(o.0.key.cid.0.to_string());
            }
        }
    }
}

impl InFlightRequestRecorder for RecData {
    fn record_in_flight_cancel(&mut self, _: &OrderRequestCancel<ExchangeIndex, InstrumentIndex>) {}
    fn record_in_flight_open(&mut self, r: &OrderRequestOpen<ExchangeIndex, InstrumentIndex>) {
        // cid = "b<bt>-e<event id>"
        if let Some(id) = r.key.cid.0.split("-e").nth(1).and_then(|s| s.parse().ok()) {
            self.acted.push(id);
        }
    }
}

type StG = EngineState<RecGlobal, RecData>;

#[derive(Debug, Clone, Default, PartialEq)]
pub struct RecOut {
    pub calls: u64,
    pub global_seen: Vec<u64>,
    pub clock_breach: Option<(i64, String)>,
    pub global_marker: u64,
    pub refused_unknown: Vec<String>,
    pub inst_seen: Vec<Vec<u64>>,
    pub fills: Vec<Vec<FillRec>>,
    pub positions: Vec<Option<(bool, Decimal, Decimal)>>,
    pub balances: Vec<Option<Decimal>>,
    pub engine_pnl: Vec<Decimal>,
}

#[derive(Debug, Clone)]
pub struct BtStrategy {
    pub bt: usize,
    pub modulus: u64,
    pub residue: u64,
    pub phase: u64,
    pub n_events: u64,
    pub sink: Arc<Mutex<RecOut>>,
}

impl AlgoStrategy for BtStrategy {
    type State = StG;
    fn generate_algo_orders(
        &self,
        state: &Self::State,
    ) -> (
        impl IntoIterator<Item = OrderRequestCancel<ExchangeIndex, InstrumentIndex>>,
        impl IntoIterator<Item = OrderRequestOpen<ExchangeIndex, InstrumentIndex>>,
    ) {
        // copy the engine's view out (the only per-backtest handle the caller keeps)
        {
            let mut s = self.sink.lock().unwrap();
            s.calls += 1;
            s.global_seen = state.global.seen.clone();
            s.clock_breach = state.global.breach.clone();
            s.global_marker = state.global.marker;
            s.refused_unknown = state.instruments.0.values().flat_map(|i| i.data.refused_unknown.clone()).collect();
            s.inst_seen = state.instruments.0.values().map(|i| i.data.seen.clone()).collect();
            s.fills = state.instruments.0.values().map(|i| i.data.fills.clone()).collect();
            s.positions = state
                .instruments
                .0
                .values()
                .map(|i| i.position.current.as_ref().map(|p| (p.side == Side::Buy, p.quantity_abs, p.price_entry_average)))
                .collect();
            s.balances = state.assets.0.values().map(|a| a.balance.map(|b| b.value.total)).collect();
            s.engine_pnl = state.instruments.0.values().map(|i| i.tear_sheet.pnl_returns.pnl_raw).collect();
        }
        // timing-independent decision: a function of the newest market event of each instrument only
        let mut opens = Vec::new();
        for (idx, ist) in state.instruments.0.values().enumerate() {
            let Some((id, price)) = ist.data.last else { continue };
            if ist.data.acted.contains(&id) {
                continue;
            }
            if id + 4 >= self.n_events || (id + self.residue) % self.modulus != 0 {
                continue;
            }
            let buy = ((id / self.modulus) + self.phase) % 2 == 0;
            opens.push(request_open(
                okey(0, idx, &format!("b{}-e{id}", self.bt)),
                buy,
                price,
                Decimal::ONE,
                OrderKind::Market,
            ));
        }
        (std::iter::empty(), opens)
    }
}

impl ClosePositionsStrategy for BtStrategy {
    type State = StG;
    fn close_positions_requests<'a>(
        &'a self,
        _: &'a Self::State,
        _: &'a InstrumentFilter,
    ) -> (
        impl IntoIterator<Item = OrderRequestCancel<ExchangeIndex, InstrumentIndex>> + 'a,
        impl IntoIterator<Item = OrderRequestOpen<ExchangeIndex, InstrumentIndex>> + 'a,
    )
    where
        ExchangeIndex: 'a,
        AssetIndex: 'a,
        InstrumentIndex: 'a,
    {
        (std::iter::empty(), std::iter::empty())
    }
}

impl OnDisconnectStrategy<HistoricalClock, StG, MultiExchangeTxMap, DefaultRiskManager<StG>> for BtStrategy {
    type OnDisconnect = ();
    fn on_disconnect(_: &mut Engine<HistoricalClock, StG, MultiExchangeTxMap, Self, DefaultRiskManager<StG>>, _: ExchangeId) {}
}

impl OnTradingDisabled<HistoricalClock, StG, MultiExchangeTxMap, DefaultRiskManager<StG>> for BtStrategy {
    type OnTradingDisabled = ();
    fn on_trading_disabled(_: &mut Engine<HistoricalClock, StG, MultiExchangeTxMap, Self, DefaultRiskManager<StG>>) {}
}

// ------------------------------------------------------------------------------------------------
// Market data seam
// ------------------------------------------------------------------------------------------------

#[derive(Debug, Clone)]
pub struct SimMarketData {
    pub events: Arc<Vec<MarketStreamEvent<InstrumentIndex, DataKind>>>,
    /// pacing profile per stream() call (in call order), each a cycle of virtual gaps in ms
    pub pacing: Arc<Vec<Vec<u64>>>,
    pub calls: Arc<AtomicUsize>,
    pub tail_gap_ms: u64,
}

impl BacktestMarketData for SimMarketData {
    type Kind = DataKind;

    async fn time_first_event(&self) -> Result<DateTime<Utc>, BarterError> {
        Ok(ts(0))
    }

    async fn stream(&self) -> Result<impl Stream<Item = MarketStreamEvent<InstrumentIndex, DataKind>> + Send + 'static, BarterError> {
        let call = self.calls.fetch_add(1, Ordering::Relaxed);
        let gaps = self.pacing.get(call % self.pacing.len().max(1)).cloned().unwrap_or_else(|| vec![1]);
        let events = self.events.clone();
        let n = events.len();
        let tail = self.tail_gap_ms;
        Ok(futures::stream::unfold(0usize, move |k| {
            let events = events.clone();
            let gaps = gaps.clone();
            async move {
                if k >= n {
                    return None;
                }
                // the last events are spaced wider than the exchange latency, so no fill can tie
                // with the end of the dataset
                let gap = if k + 4 >= n { tail } else { gaps[k % gaps.len().max(1)] };
                if gap > 0 {
                    tokio::time::sleep(Duration::from_millis(gap)).await;
                } else {
                    tokio::task::yield_now().await;
                }
                Some((events[k].clone(), k + 1))
            }
        }))
    }
}

// ------------------------------------------------------------------------------------------------
// Scenario
// ------------------------------------------------------------------------------------------------

#[derive(Clone, Debug, Serialize, Deserialize)]
pub struct BtG {
    /// this backtest carries the same id label as backtest `same_id_as % (own index)` (ids are
    /// labels chosen by the caller; nothing says they are unique)
    #[serde(default)]
    pub same_id_as: Option<usize>,
    pub modulus: u64,
    pub residue: u64,
    pub phase: u64,
    pub pacing: Vec<u64>,
}

#[derive(Clone, Debug, Serialize, Deserialize)]
pub struct ScenarioG {
    pub n_inst: usize,
    /// (instrument, price, exchange-time increment ms)
    pub events: Vec<(usize, i64, i64)>,
    pub latency_ms: u64,
    pub fee_bp: i64,
    pub init_quote: i64,
    pub backtests: Vec<BtG>,
    /// H2 spurious-yield rate num/den (0 = off)
    pub h2_rate: (u64, u64),
    pub hook_seed: u64,
    pub tokio_seed: u64,
    /// serve the dataset through the real `MarketDataInMemory` (unpaced) instead of the paced seam
    #[serde(default)]
    pub in_memory: bool,
    /// a second venue is tracked (one more instrument, never traded, no execution link) and every
    /// `relabel`-th dataset event carries that venue's label although its instrument is listed on the
    /// first one - a consolidated / relayed recording (0 = off)
    #[serde(default)]
    pub relabel: usize,
    /// which of the five pairs the instrument list starts at
    #[serde(default)]
    pub pair_rot: usize,
}

pub struct SimG;

fn bt_label(sc: &ScenarioG, j: usize) -> String {
    match sc.backtests.get(j).and_then(|b| b.same_id_as).filter(|_| j > 0) {
        Some(k) => format!("bt{}", k % j),
        None => format!("bt{j}"),
    }
}

#[derive(Debug, Clone, PartialEq)]
struct BtResult {
    rec: RecOut,
    summary_pnl: Vec<Decimal>,
    id: String,
}

const EX2: ExchangeId = ExchangeId::Kraken;

fn instruments_g(n: usize, second_venue: bool, rot: usize) -> IndexedInstruments {
    // (different runs of one process trade different, overlapping instrument sets)
    let mut v = PAIRS_G.iter().cycle().skip(rot % PAIRS_G.len()).take(n.clamp(1, 3)).map(|(b, q)| spot(EX, b, q)).collect::<Vec<_>>();
    if second_venue {
        v.push(spot(EX2, "xrp", "usdt"));
    }
    IndexedInstruments::new(v)
}

/// Independent realised-PnL accounting over closed positions (from the documented position rules).
fn realised_pnl_of_closed(fills: &[FillRec]) -> Decimal {
    let mut closed = Decimal::ZERO;
    let (mut side_buy, mut qty, mut avg, mut pnl) = (true, Decimal::ZERO, Decimal::ZERO, Decimal::ZERO);
    for f in fills {
        if qty.is_zero() {
            side_buy = f.buy;
            qty = f.qty;
            avg = f.price;
            pnl = -f.fee;
            continue;
        }
        if f.buy == side_buy {
            avg = (avg * qty + f.price * f.qty) / (qty + f.qty);
            qty += f.qty;
            pnl -= f.fee;
        } else {
            let sign = if side_buy { Decimal::ONE } else { -Decimal::ONE };
            if f.qty < qty {
                pnl += (f.price - avg) * f.qty * sign - f.fee;
                qty -= f.qty;
            } else if f.qty == qty {
                pnl += (f.price - avg) * f.qty * sign - f.fee;
                closed += pnl;
                qty = Decimal::ZERO;
                pnl = Decimal::ZERO;
            } else {
                let rest = f.qty - qty;
                let fee_close = f.fee * (qty / f.qty);
                pnl += (f.price - avg) * qty * sign - fee_close;
                closed += pnl;
                side_buy = f.buy;
                qty = rest;
                avg = f.price;
                pnl = -(f.fee * (rest / f.qty));
            }
        }
    }
    closed
}

fn run_set(sc: &ScenarioG, which: &[usize]) -> Result<(Vec<BtResult>, u64), String> {
    if sc.in_memory {
        run_set_with(sc, which, |events, _| MarketDataInMemory::new(Arc::new(events)))
    } else {
        run_set_with(sc, which, |events, pacing| SimMarketData {
            events: Arc::new(events),
            pacing: Arc::new(pacing),
            calls: Arc::new(AtomicUsize::new(0)),
            tail_gap_ms: 2 * sc.latency_ms + 7,
        })
    }
}

fn run_set_with<M, F>(sc: &ScenarioG, which: &[usize], mk_data: F) -> Result<(Vec<BtResult>, u64), String>
where
    M: BacktestMarketData<Kind = DataKind> + Send + Sync + 'static,
    F: FnOnce(Vec<MarketStreamEvent<InstrumentIndex, DataKind>>, Vec<Vec<u64>>) -> M,
{
    let instruments = instruments_g(sc.n_inst, sc.relabel > 0, sc.pair_rot);
    let n_inst = sc.n_inst.clamp(1, 3);
    let events: Vec<MarketStreamEvent<InstrumentIndex, DataKind>> = {
        let mut t = 0i64;
        sc.events
            .iter()
            .enumerate()
            .map(|(k, (inst, price, dt))| {
                t += dt;
                let label = if sc.relabel > 0 && k % sc.relabel == sc.relabel - 1 { EX2 } else { EX };
                MarketStreamEvent::Item(mk_public_trade(label, inst % n_inst, t, *price as f64, &k.to_string()))
            })
            .collect()
    };
    if events.is_empty() {
        return Ok((vec![], 0));
    }
    let n_events = events.len() as u64;
    let assets: Vec<(AssetIndex, String)> =
        instruments.assets().iter().filter(|a| a.value.exchange == EX).map(|a| (a.key, a.value.asset.name_exchange.name().to_string())).collect();
    let bal_of = |name: &str| if name == "usdt" { Decimal::from(sc.init_quote) } else { Decimal::from(1_000) };
    let mock = MockExecutionConfig {
        mocked_exchange: EX,
        initial_state: UnindexedAccountSnapshot {
            exchange: EX,
            balances: assets
                .iter()
                .map(|(_, n)| AssetBalance {
                    asset: AssetNameExchange::from(n.as_str()),
                    balance: Balance::new(bal_of(n), bal_of(n)),
                    time_exchange: ts(0),
                })
                .collect(),
            instruments: vec![],
        },
        latency_ms: sc.latency_ms,
        fees_percent: Decimal::new(sc.fee_bp, 4),
    };
    let engine_state: StG = EngineState::builder(&instruments, RecGlobal { marker: 7, ..Default::default() }, RecData::default)
        .time_engine_start(ts(0))
        .trading_state(TradingState::Enabled)
        .balances(assets.iter().map(|(_, n)| Keyed::new(ExchangeAsset::new(EX, AssetNameInternal::from(n.as_str())), Balance::new(bal_of(n), bal_of(n)))))
        .build();
    let pacing: Vec<Vec<u64>> = which.iter().map(|j| sc.backtests[*j].pacing.clone()).collect();
    let constant = Arc::new(BacktestArgsConstant {
        instruments,
        executions: vec![ExecutionConfig::Mock(mock)],
        market_data: mk_data(events, pacing),
        summary_interval: Daily,
        engine_state,
    });
    let sinks: Vec<Arc<Mutex<RecOut>>> = which.iter().map(|_| Arc::new(Mutex::new(RecOut::default()))).collect();
    let dynamics: Vec<BacktestArgsDynamic<BtStrategy, DefaultRiskManager<StG>>> = which
        .iter()
        .enumerate()
        .map(|(pos, j)| {
            let b = &sc.backtests[*j];
            BacktestArgsDynamic {
                id: SmolStr::new(bt_label(sc, *j)),
                risk_free_return: Decimal::new(5, 2),
                strategy: BtStrategy {
                    bt: *j,
                    modulus: b.modulus.max(1),
                    residue: b.residue,
                    phase: b.phase,
                    n_events,
                    sink: sinks[pos].clone(),
                },
                risk: DefaultRiskManager::default(),
            }
        })
        .collect();

    let rt = paused_runtime(sc.tokio_seed);
    // H2: seeded spurious yields of every UnboundedRx polled as a Stream on this thread
    if sc.h2_rate.0 > 0 {
        let mut hr = Rng::new(sc.hook_seed);
        let (num, den) = sc.h2_rate;
        barter_integration::channel::verif::set_spurious_yield(Some(Box::new(move || hr.chance(num, den.max(1)))));
    } else {
        barter_integration::channel::verif::set_spurious_yield(None);
    }
    // H1: the wall clock read by HistoricalClock is exactly the virtual clock
    barter::engine::clock::verif::set_wall_clock(Some(virtual_wall));
    let out = rt.block_on(async {
        VSTART.with(|s| s.set(Some(tokio::time::Instant::now())));
        let start = tokio::time::Instant::now();
        let r = tokio::time::timeout(Duration::from_secs(24 * 3600), run_backtests(constant.clone(), dynamics)).await;
        (r, start.elapsed().as_millis() as u64)
    });
    barter_integration::channel::verif::set_spurious_yield(None);
    barter::engine::clock::verif::set_wall_clock(None);
    VSTART.with(|s| s.set(None));
    drop(rt);
    let (r, elapsed) = out;
    let multi = match r {
        Err(_) => return Err("run_backtests did not finish within 24 h of virtual time".into()),
        Ok(Err(e)) => return Err(format!("run_backtests failed: {e}")),
        Ok(Ok(m)) => m,
    };
    if multi.summaries.len() != which.len() {
        return Err(format!("{} summaries for {} backtests", multi.summaries.len(), which.len()));
    }
    let mut res = Vec::new();
    for (pos, s) in multi.summaries.iter().enumerate() {
        res.push(BtResult {
            rec: sinks[pos].lock().unwrap().clone(),
            summary_pnl: s.trading_summary.instruments.values().map(|t| t.pnl).collect(),
            id: s.id.to_string(),
        });
    }
    Ok((res, elapsed))
}

impl Sim for SimG {
    type Scenario = ScenarioG;

    fn name(&self) -> &'static str {
        "G:concurrent-backtests"
    }
    fn property(&self) -> &'static str {
        "C20"
    }
    fn sub_batches(&self) -> Vec<&'static str> {
        vec![
            "plain_schedule(no spurious yields)",
            "seeded_spurious_yields_and_tie_heavy_pacing",
            "real_MarketDataInMemory_large_dataset(unpaced, non-ordering strategy)",
        ]
    }
    fn default_runs(&self) -> (u64, u64) {
        (40_000, 1_500_000)
    }

    fn plan(&self, rng: &mut Rng, sub: usize) -> ScenarioG {
        let n_inst = 1 + rng.usize(3);
        let in_memory = sub == 2;
        let span = if rng.chance(1, 4) { 180 } else { 60 };
        let n_events = if in_memory { 900 + rng.usize(2400) } else { 20 + rng.usize(span) };
        let latency_ms = *rng.pick(&[0u64, 1, 2, 10, 50]);
        let events: Vec<(usize, i64, i64)> = (0..n_events)
            .map(|_| (rng.usize(n_inst), rng.range(50, 150), rng.range(0, 3)))
            .collect();
        // some datasets are not chronological (concatenated sessions, late prints): dataset order
        // is what must be preserved, not time order
        let events: Vec<(usize, i64, i64)> = if rng.chance(1, 3) {
            events.into_iter().map(|(i, p, dt)| (i, p, if rng.chance(1, 6) { -dt - 1 } else { dt })).collect()
        } else {
            events
        };
        let n_bt = if in_memory { 2 + rng.usize(2) } else { 2 + rng.usize(5) };
        let backtests: Vec<BtG> = (0..n_bt)
            .map(|_| {
                // (unpaced in-memory data is drained before any fill can arrive, so whether a fill
                // beats the shutdown is pure scheduling: that sub-batch uses a non-ordering strategy)
                let modulus = if in_memory { u64::MAX / 2 } else { 1 + rng.below(6) };
                let plen = 1 + rng.usize(5);
                BtG {
                    same_id_as: if rng.chance(1, 10) { Some(rng.usize(8)) } else { None },
                    modulus,
                    residue: if in_memory { 1 } else { rng.below(modulus) },
                    phase: rng.below(2),
                    pacing: (0..plen)
                        .map(|_| {
                            // mostly ties around the exchange latency; sometimes long gaps (a slow source)
                            if rng.chance(1, 40) {
                                *rng.pick(&[1_000u64, 10_000])
                            } else {
                                *rng.pick(&[0u64, 0, 1, latency_ms, latency_ms + 1, latency_ms.saturating_sub(1), 2 * latency_ms, 100])
                            }
                        })
                        .collect(),
                }
            })
            .collect();
        ScenarioG {
            n_inst,
            events,
            latency_ms,
            fee_bp: *rng.pick(&[0i64, 10, 100]),
            init_quote: *rng.pick(&[100i64, 1_000, 1_000_000]),
            backtests,
            h2_rate: if sub >= 1 { *rng.pick(&[(1u64, 64u64), (1, 8), (1, 2)]) } else { (0, 1) },
            hook_seed: rng.next_u64(),
            tokio_seed: rng.next_u64(),
            in_memory,
            relabel: if rng.chance(1, 5) { 2 + rng.usize(5) } else { 0 },
            pair_rot: rng.usize(5),
        }
    }

    fn execute(&self, sc: &ScenarioG, ctx: &ExecCtx<'_>) -> Outcome {
        let pid = "C20";
        let mut log = Log::new(ctx.keep_log);
        let mut stats = RunStats::default();
        let mut violation: Option<Violation> = None;
        macro_rules! fail {
            ($l:lifetime, $rule:expr, $step:expr, $($arg:tt)*) => {{
                violation = report(ctx, &mut stats, pid, $rule, $step, format!($($arg)*), None);
                if violation.is_some() {
                    break $l;
                }
            }};
        }
        let n_bt = sc.backtests.len();
        let n_events = sc.events.len() as u64;
        #[allow(clippy::never_loop)]
        'run: loop {
            if n_bt == 0 || n_events == 0 {
                break;
            }
            let all: Vec<usize> = (0..n_bt).collect();
            let (conc, elapsed) = match run_set(sc, &all) {
                Ok(x) => x,
                Err(e) => {
                    fail!('run, "G0_backtests_complete", 0, "concurrent run: {e}");
                    break;
                }
            };
            stats.sim_time_ms += elapsed;
            stats.steps += n_events * n_bt as u64;
            if sc.h2_rate.0 > 0 {
                stats.fault("spurious_yield_hook");
            }
            stats.fault("concurrent_backtests");
            let expect_ids: Vec<u64> = (0..n_events).collect();
            for (j, r) in conc.iter().enumerate() {
                log.sig(&format!("bt{}:{}", j, r.rec.fills.iter().map(Vec::len).sum::<usize>()));
                log.line(|| format!("concurrent bt{j}: seen {} events, fills {:?}, positions {:?}, balances {:?}, summary pnl {:?}", r.rec.global_seen.len(), r.rec.fills.iter().map(Vec::len).collect::<Vec<_>>(), r.rec.positions, r.rec.balances, r.summary_pnl));
                if r.id != bt_label(sc, j) {
                    fail!('run, "G2_summary_of_own_engine", j, "summary at position {j} carries id {}", r.id);
                }
                // G1: the whole dataset, exactly once, in order, before shutdown
                if r.rec.global_seen != expect_ids {
                    let k = r.rec.global_seen.iter().zip(expect_ids.iter()).position(|(a, b)| a != b).unwrap_or(r.rec.global_seen.len().min(expect_ids.len()));
                    fail!(
                        'run,
                        "G1_dataset_complete_in_order",
                        j,
                        "backtest {j} saw {} of {} dataset events; first difference at position {k}: saw {:?}, dataset has {:?}",
                        r.rec.global_seen.len(), n_events, r.rec.global_seen.get(k), expect_ids.get(k)
                    );
                }
                // ... also as seen by each instrument's own market-data state
                let n_inst_g = sc.n_inst.clamp(1, 3);
                for (i, seen) in r.rec.inst_seen.iter().enumerate() {
                    let expect_i: Vec<u64> = sc.events.iter().enumerate().filter(|(_, e)| e.0 % n_inst_g == i).map(|(k, _)| k as u64).collect();
                    if *seen != expect_i {
                        let k = seen.iter().zip(expect_i.iter()).position(|(a, b)| a != b).unwrap_or(seen.len().min(expect_i.len()));
                        fail!(
                            'run,
                            "G1_dataset_complete_in_order",
                            j,
                            "backtest {j}: the market-data state of instrument {i} was fed {} events, the dataset has {} for it; first difference at position {k}: fed {:?}, dataset {:?}",
                            seen.len(), expect_i.len(), seen.get(k), expect_i.get(k)
                        );
                    }
                }
                // the engine started from the configured initial state (user data included)
                if !r.rec.refused_unknown.is_empty() {
                    fail!('run, "G3_isolation", j, "backtest {j} of {n_bt}: its own mock exchange refused order(s) {:?} as for an unknown instrument although every instrument of this backtest is configured on it", r.rec.refused_unknown);
                }
                if r.rec.calls > 0 && r.rec.global_marker != 7 {
                    fail!('run, "G3_isolation", j, "backtest {j} of {n_bt}: its engine's global data carries marker {} instead of the configured 7: it did not start from the shared initial engine state", r.rec.global_marker);
                }
                // G4: timestamps the exchange put on this backtest's fills / balances come from this
                // backtest's own clock (its own events + elapsed wall time), never from another's progress
                // (slack: the exchange latency plus tokio's 1 ms timer granularity)
                if let Some((excess, b)) = &r.rec.clock_breach {
                    if *excess > sc.latency_ms as i64 + 1 {
                        fail!('run, "G4_timestamps_from_own_clock", j, "backtest {j} of {n_bt}: {b}");
                    }
                }
                // G2: the returned summary is computed from that backtest's own fills
                for (i, fills) in r.rec.fills.iter().enumerate() {
                    let mine = realised_pnl_of_closed(fills);
                    let got = r.summary_pnl.get(i).copied().unwrap_or_default();
                    if (mine - got).abs() > Decimal::new(1, 6) {
                        fail!(
                            'run,
                            "G2_summary_of_own_engine",
                            j,
                            "backtest {j} instrument {i}: summary PnL {got}, realised PnL of its own closed positions {mine} ({} fills)",
                            fills.len()
                        );
                    }
                    if !mine.is_zero() {
                        stats.probe("closed_position_with_pnl");
                    }
                }
                if r.rec.fills.iter().any(|f| !f.is_empty()) {
                    stats.probe("backtest_with_fills");
                }
            }
            // G3: every backtest alone, same pacing and parameters, fresh runtime
            for j in 0..n_bt {
                let (solo, el) = match run_set(sc, &[j]) {
                    Ok(x) => x,
                    Err(e) => {
                        fail!('run, "G0_backtests_complete", j, "solo run of backtest {j}: {e}");
                        continue;
                    }
                };
                stats.sim_time_ms += el;
                let (Some(s), Some(c)) = (solo.first(), conc.get(j)) else { continue };
                let same = s.rec.fills == c.rec.fills
                    && s.rec.positions == c.rec.positions
                    && s.rec.balances == c.rec.balances
                    && s.summary_pnl == c.summary_pnl
                    && s.rec.global_seen == c.rec.global_seen;
                if !same {
                    let what = if s.rec.fills != c.rec.fills {
                        format!("fills differ: alone {:?} vs concurrent {:?}", s.rec.fills, c.rec.fills)
                    } else if s.rec.positions != c.rec.positions {
                        format!("final positions differ: alone {:?} vs concurrent {:?}", s.rec.positions, c.rec.positions)
                    } else if s.rec.balances != c.rec.balances {
                        format!("final balances differ: alone {:?} vs concurrent {:?}", s.rec.balances, c.rec.balances)
                    } else if s.summary_pnl != c.summary_pnl {
                        format!("realised PnL differs: alone {:?} vs concurrent {:?}", s.summary_pnl, c.summary_pnl)
                    } else {
                        "events seen differ".to_string()
                    };
                    // recorded finding: everything but the engine-held balance agrees, and both
                    // balances are stale-or-final snapshots of this backtest's own ledger (between the
                    // exchange-true final balance and the initial one)
                    let only_balances = s.rec.fills == c.rec.fills
                        && s.rec.positions == c.rec.positions
                        && s.summary_pnl == c.summary_pnl
                        && s.rec.global_seen == c.rec.global_seen;
                    let fee = Decimal::new(sc.fee_bp, 4);
                    let spent: Decimal = c.rec.fills.iter().flatten().map(|f| if f.buy { f.price * f.qty * (Decimal::ONE + fee) } else { f.qty * (Decimal::ONE + fee) }).sum();
                    let true_final = Decimal::from(sc.init_quote) - spent;
                    let plausible = s.rec.balances.iter().zip(c.rec.balances.iter()).all(|(a, b)| {
                        a == b
                            || [a, b].iter().all(|x| x.is_some_and(|v| v >= true_final - Decimal::new(1, 6) && v <= Decimal::from(sc.init_quote.max(1_000))))
                    });
                    let key = if only_balances && plausible {
                        Some("C20-engine-held-balance-depends-on-same-instant-interleaving")
                    } else {
                        None
                    };
                    violation = report(ctx, &mut stats, pid, "G3_isolation", j, format!("backtest {j} of {n_bt}: {what}"), key);
                    if violation.is_some() {
                        break 'run;
                    }
                }
            }
            if n_bt >= 4 {
                stats.probe("four_or_more_concurrent");
            }
            if sc.events.iter().any(|e| e.2 < 0) {
                stats.probe("dataset_not_chronological");
            }
            if sc.relabel > 0 && n_events as usize >= sc.relabel {
                stats.probe("events_labelled_with_relaying_venue");
            }
            if sc.in_memory && n_events >= 1024 {
                stats.probe("in_memory_dataset_over_1k_events");
            }
            if stats.sim_time_ms > 30_000 * (n_bt as u64 + 1) {
                stats.probe("slow_market_source_over_30s");
            }
            break;
        }
        Outcome { violation, stats, log_hash: log.hash(), signature: log.signature(), log: log.lines }
    }

    fn shrink_len(&self, sc: &ScenarioG) -> usize {
        sc.events.len() + sc.backtests.len()
    }
    fn shrink_remove(&self, sc: &ScenarioG, from: usize, to: usize) -> ScenarioG {
        let mut s = sc.clone();
        let n = s.events.len();
        let (bf, bt) = (from.max(n) - n, to.max(n) - n);
        if bt > bf {
            s.backtests.drain(bf..bt.min(s.backtests.len()));
        }
        if from < n {
            s.events.drain(from..to.min(n));
        }
        s
    }
    fn simplify(&self, sc: &ScenarioG) -> Vec<ScenarioG> {
        let mut out = Vec::new();
        if sc.h2_rate.0 > 0 {
            let mut s = sc.clone();
            s.h2_rate = (0, 1);
            out.push(s);
        }
        if sc.latency_ms > 0 {
            let mut s = sc.clone();
            s.latency_ms = 0;
            out.push(s);
        }
        if sc.fee_bp > 0 {
            let mut s = sc.clone();
            s.fee_bp = 0;
            out.push(s);
        }
        if sc.n_inst > 1 {
            let mut s = sc.clone();
            s.n_inst -= 1;
            out.push(s);
        }
        if sc.in_memory {
            let mut s = sc.clone();
            s.in_memory = false;
            out.push(s);
        }
        if sc.relabel > 0 {
            let mut s = sc.clone();
            s.relabel = 0;
            out.push(s);
        }
        for (k, b) in sc.backtests.iter().enumerate() {
            if b.pacing != vec![1] {
                let mut s = sc.clone();
                s.backtests[k].pacing = vec![1];
                out.push(s);
            }
        }
        out
    }

    fn rule_text(&self) -> String {
        "each run = one PRNG-planned shared dataset (20-200 public-trade events with unique ids over 1-3 instruments), mock-exchange latency / fee / initial balance, and 2-6 backtests with different strategy parameters and per-backtest seeded pacing of the market stream (zero gaps, gaps equal to / around the exchange latency, long gaps); the real run_backtests executes them concurrently on one paused current-thread tokio runtime (seeded select!/merge tie-breaks, optional seeded spurious yields of the engine feed via hook H2, wall clock == virtual clock via hook H1), then every backtest is re-run alone in a fresh runtime. G0 all backtests complete; G1 each engine saw every dataset event exactly once, in dataset order, before its shutdown; G2 the returned summary's per-instrument PnL equals the realised PnL of exactly that backtest's own closed positions (independent accounting over its own fills) and carries its id; G3 fills, final positions, final balances, realised PnL and events seen are identical alone and concurrently. distinct = distinct (backtest, fill-count) skeleton; non-trivial = concurrency / yield faults fired AND a probe (fills, closed position with PnL, >= 4 concurrent) hit".into()
    }
    fn components_real(&self) -> Vec<&'static str> {
        vec![
            "barter::backtest::{run_backtests, backtest}",
            "barter::engine::clock::HistoricalClock (wall clock through hook H1)",
            "barter::execution::builder::{ExecutionBuilder::add_mock, ExecutionBuild, ExecutionBuildFutures::init}",
            "barter_execution::exchange::mock::MockExchange, barter_execution::client::mock::MockExecution",
            "barter::execution::manager::ExecutionManager::{init, run}",
            "barter::system::builder::SystemBuild::init (stream mode), barter::system::System::shutdown_after_backtest",
            "barter::engine::run::async_run, Engine::process, EngineState",
            "barter::statistic::summary::TradingSummaryGenerator",
        ]
    }
    fn components_stub(&self) -> Vec<&'static str> {
        vec![
            "BacktestMarketData (shared dataset, per-backtest paced stream)",
            "strategy (timing-independent, records the engine's view on every invocation)",
            "instrument / global data (recording wrappers around the default market data)",
        ]
    }
    fn fault_kinds(&self) -> Vec<&'static str> {
        vec!["concurrent_backtests", "spurious_yield_hook"]
    }
    fn probe_kinds(&self) -> Vec<&'static str> {
        vec![
            "backtest_with_fills",
            "closed_position_with_pnl",
            "four_or_more_concurrent",
            "in_memory_dataset_over_1k_events",
            "slow_market_source_over_30s",
            "dataset_not_chronological",
            "events_labelled_with_relaying_venue",
        ]
    }
    fn assumptions(&self) -> Vec<String> {
        vec![
            "task interleavings are explored on one thread; tokio's multi-thread scheduler cannot be controlled, so 'runtime thread counts' is not explored".into(),
            "the wall clock equals the virtual clock (no skew or jumps injected)".into(),
            "the last four dataset events are spaced wider than the exchange latency and trigger no orders, so no fill ties with the end of the dataset (a backtest stops when its data ends)".into(),
        ]
    }
}
