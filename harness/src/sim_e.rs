//! Sim E — mock exchange ledger (C08).
//!
//! Real: `MockExchange::{new, run, open_order, account_snapshot, ...}` task and real
//! `MockExecution` clients (one per operation + dedicated stream consumers) on a paused, seeded
//! current-thread tokio runtime. Stub: the client programs (seeded concurrent operations at
//! virtual instants), lagging consumers, dropped response receivers, exchange shutdown.
//! Oracle: sequential ledger applied in the exchange's acceptance order (FIFO order of its
//! request channel, logged by a pass-through tap with a global sequence number).

use crate::{
    kit::{ExecCtx, Log, Outcome, RunStats, Sim, Violation, report, rng::Rng},
    sim_client::paused_runtime,
    world::*,
};
use barter_execution::{
    AccountEventKind, UnindexedAccountEvent, UnindexedAccountSnapshot,
    balance::{AssetBalance, Balance},
    client::{
        ExecutionClient,
        mock::{MockExecution, MockExecutionClientConfig, MockExecutionConfig},
    },
    error::{ApiError, ConnectivityError, OrderError, UnindexedClientError},
    exchange::mock::{
        MockExchange,
        request::{MockExchangeRequest, MockExchangeRequestKind},
    },
    order::{
        OrderKey, OrderKind, TimeInForce,
        id::{ClientOrderId, StrategyId},
        request::{OrderRequestCancel, OrderRequestOpen, RequestCancel, RequestOpen},
    },
};
use barter_instrument::{
    Underlying,
    asset::name::AssetNameExchange,
    exchange::ExchangeId,
    instrument::{
        Instrument,
        kind::InstrumentKind,
        name::{InstrumentNameExchange, InstrumentNameInternal},
        quote::InstrumentQuoteAsset,
    },
};
use chrono::{DateTime, Utc};
use fnv::FnvHashMap;
use futures::StreamExt;
use rust_decimal::Decimal;
use serde::{Deserialize, Serialize};
use std::{
    collections::BTreeMap,
    sync::{Arc, Mutex},
    time::Duration,
};
use tokio::sync::{broadcast, mpsc};

const EX: ExchangeId = ExchangeId::BinanceSpot;
const ASSETS: [&str; 3] = ["btc", "eth", "usdt"];
/// (base, quote) as indices into ASSETS
const PAIRS_E: [(usize, usize); 3] = [(0, 2), (1, 2), (1, 0)];

#[derive(Clone, Debug, Serialize, Deserialize, PartialEq)]
pub enum OpKindE {
    Open {
        /// >= n_inst: instrument the exchange does not know
        inst: usize,
        buy: bool,
        /// price in cents
        price_c: i64,
        /// quantity in thousandths
        qty_m: i64,
        market: bool,
    },
    FetchBalances,
    FetchTrades { since_ms: i64 },
    Snapshot,
    Cancel,
}

#[derive(Clone, Debug, Serialize, Deserialize, PartialEq)]
pub struct OpE {
    pub at_ms: u64,
    pub kind: OpKindE,
    /// abort the caller (drop the response receiver) this many ms after the call
    pub drop_after_ms: Option<u64>,
    /// clock skew of the calling client (ms): its request timestamps are offset by this much
    #[serde(default)]
    pub skew_ms: i64,
}

#[derive(Clone, Debug, Serialize, Deserialize)]
pub struct ScenarioE {
    pub latency_ms: u64,
    /// fee in basis points (0 ..= 5000)
    pub fee_bp: i64,
    pub capacity: usize,
    pub n_inst: usize,
    /// initial balance per asset in cents
    pub init_bal_c: Vec<i64>,
    pub ops: Vec<OpE>,
    /// stream consumers: true = never polls (lags)
    pub consumers_lagging: Vec<bool>,
    pub kill_exchange_at: Option<u64>,
    pub tokio_seed: u64,
    /// the instruments carry a specification (tick size, quantity increment, minimum notional)
    #[serde(default)]
    pub with_spec: bool,
    /// m > 0: operation k uses client order id "e{k mod m}" - clients re-use ids (0 = unique ids);
    /// the exchange's ledger rules do not mention client order ids
    #[serde(default)]
    pub cid_mod: usize,
}

pub struct SimE;

fn dc(cents: i64) -> Decimal {
    Decimal::new(cents, 2)
}
fn dm(milli: i64) -> Decimal {
    Decimal::new(milli, 3)
}

#[derive(Clone, Debug, PartialEq)]
enum OpenOutcome {
    Accepted { order_id: String, filled: Decimal },
    RejectedBalance { asset: String },
    RejectedKind,
    RejectedInstrument,
    Offline,
    Other(String),
}

#[derive(Clone, Debug, PartialEq)]
struct TradeSum {
    op: usize,
    id: String,
    order_id: String,
    instrument: String,
    buy: bool,
    price: Decimal,
    qty: Decimal,
    fees: Decimal,
    t_us: i64,
}

#[derive(Clone, Debug, PartialEq)]
enum OpResult {
    Open(OpenOutcome),
    Balances(Result<Vec<(String, Decimal, Decimal)>, String>),
    Trades(Result<Vec<TradeSum>, String>),
    Snapshot(Result<(Vec<(String, Decimal, Decimal)>, usize), String>),
    Cancel(String),
    Hung,
    CallerDropped,
}

#[derive(Clone, Debug)]
enum StreamEv {
    Balance { asset: String, total: Decimal, free: Decimal },
    Trade(TradeSum),
    Other,
}

#[derive(Clone, Debug)]
struct AcceptRec {
    op: usize,
}

struct Obs {
    accept: Vec<AcceptRec>,
    results: BTreeMap<usize, (u64, OpResult)>,
    consumers: Vec<(Vec<StreamEv>, bool)>,
    final_balances: Option<Vec<(String, Decimal, Decimal)>>,
    final_trades: Option<Vec<TradeSum>>,
    end_ms: u64,
}

fn op_of_strategy(s: &StrategyId) -> usize {
    s.0.trim_start_matches('s').parse().unwrap_or(usize::MAX)
}

fn trade_sum(t: &barter_execution::trade::Trade<barter_instrument::asset::QuoteAsset, InstrumentNameExchange>) -> TradeSum {
    TradeSum {
        op: op_of_strategy(&t.strategy),
        id: t.id.0.to_string(),
        order_id: t.order_id.0.to_string(),
        instrument: t.instrument.name().to_string(),
        buy: t.side == barter_instrument::Side::Buy,
        price: t.price,
        qty: t.quantity,
        fees: t.fees.fees,
        t_us: (t.time_exchange - epoch()).num_nanoseconds().unwrap_or(0),
    }
}

fn bal_sum(b: &AssetBalance<AssetNameExchange>) -> (String, Decimal, Decimal) {
    (b.asset.name().to_string(), b.balance.total, b.balance.free)
}

fn mk_clock(start: tokio::time::Instant, op: i64, skew_ms: i64) -> impl Fn() -> DateTime<Utc> + Clone + Sync + Send {
    // (skewed) virtual time in ms, with the operation id in the sub-millisecond digits (request tag,
    // in nanoseconds so that sessions of more than a thousand operations can be tagged)
    move || ts(start.elapsed().as_millis() as i64 + skew_ms) + chrono::TimeDelta::nanoseconds(op)
}

fn inst_name(i: usize) -> String {
    match PAIRS_E.get(i) {
        Some((b, q)) => format!("{}_{}", ASSETS[*b], ASSETS[*q]),
        // 5, 6, 7: a configured name in another letter case - still an unknown instrument
        None if (5..8).contains(&i) => inst_name(i - 5).to_uppercase(),
        None => format!("ghost{i}_usdt"),
    }
}

fn mock_instruments(n: usize, with_spec: bool) -> FnvHashMap<InstrumentNameExchange, Instrument<ExchangeId, AssetNameExchange>> {
    use barter_instrument::instrument::spec::{InstrumentSpec, InstrumentSpecNotional, InstrumentSpecPrice, InstrumentSpecQuantity, OrderQuantityUnits};
    (0..n.clamp(1, 3))
        .map(|i| {
            let (b, q) = PAIRS_E[i];
            let name = InstrumentNameExchange::from(inst_name(i));
            (
                name.clone(),
                Instrument {
                    exchange: EX,
                    name_internal: InstrumentNameInternal::new_from_exchange(EX, name.clone()),
                    name_exchange: name,
                    underlying: Underlying {
                        base: AssetNameExchange::from(ASSETS[b]),
                        quote: AssetNameExchange::from(ASSETS[q]),
                    },
                    quote: InstrumentQuoteAsset::UnderlyingQuote,
                    kind: InstrumentKind::Spot,
                    // (the statement's ledger rules do not mention lot sizes: a specification must
                    // not change what is debited or filled)
                    spec: with_spec.then(|| InstrumentSpec {
                        price: InstrumentSpecPrice { min: Decimal::ZERO, tick_size: Decimal::new(1, 2) },
                        quantity: InstrumentSpecQuantity { unit: OrderQuantityUnits::Contract, min: Decimal::ZERO, increment: Decimal::ONE },
                        notional: InstrumentSpecNotional { min: Decimal::ZERO },
                    }),
                },
            )
        })
        .collect()
}

/// Sequential ledger written from the statement. `sell_spends_quote` = the recorded-defect variant.
struct Ledger {
    bal: BTreeMap<String, Decimal>,
    fee: Decimal,
    n_inst: usize,
    trades: Vec<(usize, Decimal)>, // (op, fee in quote)
}

enum Decision {
    Accept { asset: String, debit: Decimal, fee_quote: Decimal },
    RejectBalance { asset: String },
    RejectKind,
    RejectInstrument,
}

impl Ledger {
    fn decide(&self, k: &OpKindE, sell_spends_quote: bool) -> Decision {
        let OpKindE::Open { inst, buy, price_c, qty_m, market } = k else {
            unreachable!()
        };
        if !*market {
            return Decision::RejectKind;
        }
        if *inst >= self.n_inst {
            return Decision::RejectInstrument;
        }
        let (b, q) = PAIRS_E[*inst];
        let (price, qty) = (dc(*price_c), dm(*qty_m));
        let (asset, required, fee_quote) = if *buy {
            let value = price * qty;
            (ASSETS[q].to_string(), value + value * self.fee, value * self.fee)
        } else {
            let asset = if sell_spends_quote { ASSETS[q] } else { ASSETS[b] };
            (asset.to_string(), qty + qty * self.fee, qty * self.fee * price)
        };
        if self.bal[&asset] - required >= Decimal::ZERO {
            Decision::Accept {
                asset,
                debit: required,
                fee_quote,
            }
        } else {
            Decision::RejectBalance { asset }
        }
    }
}

fn judge(sc: &ScenarioE, obs: &Obs, sell_spends_quote: bool, stats: Option<&mut RunStats>) -> Option<(String, usize, String)> {
    let mut stats = stats;
    let mut probe = |p: &'static str| {
        if let Some(s) = stats.as_deref_mut() {
            s.probe(p);
        }
    };
    let n_inst = sc.n_inst.clamp(1, 3);
    let mut led = Ledger {
        bal: ASSETS
            .iter()
            .enumerate()
            .map(|(i, a)| (a.to_string(), dc(sc.init_bal_c.get(i).copied().unwrap_or(0))))
            .collect(),
        fee: Decimal::new(sc.fee_bp, 4),
        n_inst,
        trades: Vec::new(),
    };
    let mut accepted_ops: Vec<usize> = Vec::new();
    let mut exp_balance_notifs: Vec<(usize, String, Decimal)> = Vec::new();
    let mut order_ids: Vec<String> = Vec::new();
    let killed = sc.kill_exchange_at;
    for (pos, rec) in obs.accept.iter().enumerate() {
        let op = rec.op;
        let Some(ope) = sc.ops.get(op) else { continue };
        let res = obs.results.get(&op).map(|r| &r.1);
        match &ope.kind {
            OpKindE::Open { buy, price_c, qty_m, .. } => {
                let d = led.decide(&ope.kind, sell_spends_quote);
                let observed_trade = obs
                    .final_trades
                    .as_ref()
                    .map(|t| t.iter().any(|x| x.op == op));
                match &d {
                    Decision::Accept { asset, debit, fee_quote } => {
                        let before = led.bal[asset];
                        let after = before - *debit;
                        if after.is_zero() {
                            probe("exactly_affordable_boundary");
                        }
                        if after < Decimal::ZERO {
                            return Some(("L3_negative_balance".into(), op, format!("model debit would go negative: {asset} {before} - {debit}")));
                        }
                        led.bal.insert(asset.clone(), after);
                        led.trades.push((op, *fee_quote));
                        accepted_ops.push(op);
                        exp_balance_notifs.push((op, asset.clone(), after));
                        if let Some(false) = observed_trade {
                            return Some(("L1_accept_iff_affordable".into(), op, format!("op {op} {:?}: ledger holds {before} {asset}, required {debit}: must be accepted, but the exchange recorded no fill for it", ope.kind)));
                        }
                        match res {
                            Some(OpResult::Open(OpenOutcome::Accepted { order_id, filled })) => {
                                if *filled != dm(*qty_m) {
                                    return Some(("L4_fill".into(), op, format!("op {op}: accepted market order filled {filled} of {}", dm(*qty_m))));
                                }
                                if order_ids.contains(order_id) {
                                    return Some(("L4_fresh_ids".into(), op, format!("op {op}: order id {order_id} was already issued")));
                                }
                                order_ids.push(order_id.clone());
                            }
                            Some(OpResult::Open(OpenOutcome::Offline)) if killed.is_some() => {}
                            Some(OpResult::Open(other)) => {
                                return Some(("L1_accept_iff_affordable".into(), op, format!("op {op} {:?}: ledger holds {before} {asset}, required {debit}: must be accepted, response was {other:?}", ope.kind)));
                            }
                            _ => {} // caller dropped / exchange killed: response not observable
                        }
                        let _ = (buy, price_c);
                    }
                    Decision::RejectBalance { .. } | Decision::RejectKind | Decision::RejectInstrument => {
                        if matches!(d, Decision::RejectBalance { .. }) {
                            probe("rejected_for_insufficient_balance");
                        }
                        if let Some(true) = observed_trade {
                            return Some(("L1_accept_iff_affordable".into(), op, format!("op {op} {:?} must be rejected (balances {:?}, fee {}), but the exchange recorded a fill for it", ope.kind, led.bal, led.fee)));
                        }
                        let ok = match (&d, res) {
                            (_, None) | (_, Some(OpResult::CallerDropped)) | (_, Some(OpResult::Hung)) => true,
                            (Decision::RejectBalance { asset }, Some(OpResult::Open(OpenOutcome::RejectedBalance { asset: a }))) => a == asset,
                            (Decision::RejectKind, Some(OpResult::Open(OpenOutcome::RejectedKind))) => true,
                            (Decision::RejectInstrument, Some(OpResult::Open(OpenOutcome::RejectedInstrument))) => true,
                            (_, Some(OpResult::Open(OpenOutcome::Offline))) => killed.is_some(),
                            _ => false,
                        };
                        if !ok {
                            return Some(("L1_accept_iff_affordable".into(), op, format!("op {op} {:?} must be rejected (balances {:?}, fee {}), response was {res:?}", ope.kind, led.bal, led.fee)));
                        }
                    }
                }
            }
            OpKindE::FetchBalances => {
                if let Some(OpResult::Balances(Ok(b))) = res {
                    let mut got: Vec<(String, Decimal)> = b.iter().map(|(a, t, _)| (a.clone(), *t)).collect();
                    got.sort();
                    let exp: Vec<(String, Decimal)> = led.bal.iter().map(|(a, v)| (a.clone(), *v)).collect();
                    if b.iter().any(|(_, t, f)| t != f) || got != exp {
                        return Some(("L5_read_reflects_ledger".into(), op, format!("fetch_balances at acceptance position {pos}: got {b:?}, ledger {exp:?}")));
                    }
                    probe("balance_read_checked");
                }
            }
            OpKindE::FetchTrades { since_ms } => {
                if let Some(OpResult::Trades(Ok(t))) = res {
                    let got: Vec<usize> = t.iter().map(|x| x.op).collect();
                    // exchange time of a fill = request time + latency/2
                    let exp: Vec<usize> = led
                        .trades
                        .iter()
                        .map(|(o, _)| *o)
                        .filter(|o| {
                            // exchange time of a fill = request time (+ op tag in the microsecond
                            // digits) + half the configured latency
                            let t_fill_ns = ((sc.ops[*o].at_ms + sc.latency_ms / 2) as i64 + sc.ops[*o].skew_ms) * 1_000_000 + *o as i64;
                            t_fill_ns >= since_ms * 1_000_000
                        })
                        .collect();
                    if got != exp {
                        let first = got.iter().zip(exp.iter()).position(|(a, b)| a != b).unwrap_or(got.len().min(exp.len()));
                        let (g, e): (Vec<_>, Vec<_>) = if exp.len() > 40 {
                            (got.iter().skip(first).take(5).collect(), exp.iter().skip(first).take(5).collect())
                        } else {
                            (got.iter().collect(), exp.iter().collect())
                        };
                        return Some((
                            "L5_read_reflects_ledger".into(),
                            op,
                            format!("fetch_trades(since {since_ms} ms) at position {pos}: got {} fills, ledger {}; from the first difference (index {first}) got fills of ops {g:?}, ledger {e:?}", got.len(), exp.len()),
                        ));
                    }
                    probe("trade_read_checked");
                    if exp.len() > 1_000 {
                        probe("session_with_over_1000_fills");
                    }
                }
            }
            OpKindE::Snapshot => {
                if let Some(OpResult::Snapshot(Ok((b, n_orders)))) = res {
                    let mut got: Vec<(String, Decimal)> = b.iter().map(|(a, t, _)| (a.clone(), *t)).collect();
                    got.sort();
                    let exp: Vec<(String, Decimal)> = led.bal.iter().map(|(a, v)| (a.clone(), *v)).collect();
                    if got != exp || *n_orders != 0 {
                        return Some(("L5_read_reflects_ledger".into(), op, format!("account_snapshot at position {pos}: balances {b:?} open orders {n_orders}, ledger {exp:?} / 0 (market orders fill at once)")));
                    }
                    probe("snapshot_read_checked");
                }
            }
            OpKindE::Cancel => {}
        }
    }
    // final reads (taken by the simulator after every operation finished)
    if let Some(fb) = &obs.final_balances {
        let mut got: Vec<(String, Decimal)> = fb.iter().map(|(a, t, _)| (a.clone(), *t)).collect();
        got.sort();
        let exp: Vec<(String, Decimal)> = led.bal.iter().map(|(a, v)| (a.clone(), *v)).collect();
        if got != exp {
            return Some(("L2_debit_exact".into(), sc.ops.len(), format!("final balances {got:?}, ledger {exp:?}")));
        }
        if fb.iter().any(|(_, t, _)| *t < Decimal::ZERO) {
            return Some(("L3_negative_balance".into(), sc.ops.len(), format!("negative balance: {fb:?}")));
        }
    }
    if let Some(ft) = &obs.final_trades {
        let got: Vec<usize> = ft.iter().map(|x| x.op).collect();
        if got != accepted_ops {
            return Some(("L5_read_reflects_ledger".into(), sc.ops.len(), format!("final trade history has fills of ops {got:?}, accepted ops {accepted_ops:?}")));
        }
        let mut ids: Vec<&String> = ft.iter().map(|x| &x.id).collect();
        ids.sort();
        ids.dedup();
        if ids.len() != ft.len() {
            return Some(("L4_fresh_ids".into(), sc.ops.len(), "trade ids repeat".into()));
        }
        for x in ft {
            let (_, fee) = led.trades.iter().find(|(o, _)| *o == x.op).copied().unwrap_or((0, Decimal::ZERO));
            let OpKindE::Open { inst, buy, price_c, qty_m, .. } = &sc.ops[x.op].kind else { continue };
            if x.fees != fee || x.price != dc(*price_c) || x.qty != dm(*qty_m) || x.buy != *buy || x.instrument != inst_name(*inst) {
                return Some(("L4_fill".into(), x.op, format!("fill of op {}: {x:?}, expected fee {fee} price {} qty {}", x.op, dc(*price_c), dm(*qty_m))));
            }
        }
    }
    // notifications: a consumer that kept up saw exactly one balance + one trade per accepted order
    for (c, (evs, ended)) in obs.consumers.iter().enumerate() {
        let lagging = sc.consumers_lagging.get(c).copied().unwrap_or(false);
        let mut seen_trades: Vec<usize> = Vec::new();
        let mut seen_bal: Vec<(String, Decimal)> = Vec::new();
        for e in evs {
            match e {
                StreamEv::Trade(t) => {
                    if seen_trades.contains(&t.op) {
                        return Some(("L6_notifications".into(), t.op, format!("consumer {c}: trade notification for op {} delivered twice", t.op)));
                    }
                    if !accepted_ops.contains(&t.op) {
                        return Some(("L6_notifications".into(), t.op, format!("consumer {c}: trade notification for op {} which was not accepted", t.op)));
                    }
                    // its balance notification comes first
                    seen_trades.push(t.op);
                }
                StreamEv::Balance { asset, total, free } => {
                    if total != free {
                        return Some(("L6_notifications".into(), 0, format!("consumer {c}: balance notification total {total} != free {free}")));
                    }
                    seen_bal.push((asset.clone(), *total));
                }
                StreamEv::Other => {
                    return Some(("L6_notifications".into(), 0, format!("consumer {c}: unexpected notification kind")));
                }
            }
        }
        // every observed balance notification is one the ledger predicts (multiset inclusion)
        let mut pool: Vec<(String, Decimal)> = exp_balance_notifs.iter().map(|(_, a, v)| (a.clone(), *v)).collect();
        for b in &seen_bal {
            match pool.iter().position(|p| p == b) {
                Some(i) => {
                    pool.remove(i);
                }
                None => {
                    return Some(("L6_notifications".into(), 0, format!("consumer {c}: balance notification {b:?} does not correspond to any accepted order (ledger predicts {:?})", exp_balance_notifs)));
                }
            }
        }
        let kept_up = !lagging && !*ended;
        if kept_up && killed.is_none() {
            let mut st = seen_trades.clone();
            st.sort();
            let mut ex = accepted_ops.clone();
            ex.sort();
            if st != ex || seen_bal.len() != accepted_ops.len() {
                return Some(("L6_notifications".into(), 0, format!("consumer {c} kept up: saw trade notifications for ops {st:?} and {} balance notifications; accepted ops {ex:?}", seen_bal.len())));
            }
            probe("consumer_kept_up_saw_all");
        }
        if lagging && (*ended || seen_trades.len() < accepted_ops.len()) {
            probe("lagging_consumer_stream_ended");
        }
    }
    // liveness: nothing hangs
    for (op, (_, r)) in &obs.results {
        if matches!(r, OpResult::Hung) {
            return Some(("L7_call_hangs".into(), *op, format!("op {op} {:?} never returned", sc.ops[*op].kind)));
        }
        if let (OpResult::Cancel(s), Some(_)) = (r, sc.ops.get(*op)) {
            if s != "offline" && s != "err" {
                return Some(("L7_call_hangs".into(), *op, format!("cancel request returned {s}")));
            }
        }
    }
    None
}

impl Sim for SimE {
    type Scenario = ScenarioE;

    fn name(&self) -> &'static str {
        "E:mock-exchange concurrent clients"
    }
    fn property(&self) -> &'static str {
        "C08"
    }
    fn sub_batches(&self) -> Vec<&'static str> {
        vec![
            "consumers_keep_up(fault-free)",
            "lagging_consumers_dropped_callers_exchange_shutdown",
        ]
    }
    fn default_runs(&self) -> (u64, u64) {
        (1_000_000, 30_000_000)
    }

    fn plan(&self, rng: &mut Rng, sub: usize) -> ScenarioE {
        let n_inst = 1 + rng.usize(3);
        // (7 and 33 bp make price x quantity x fee need 9 decimal places)
        let fee_bp = *rng.pick(&[0i64, 0, 7, 10, 33, 1000, 2500, 5000]);
        let latency_ms = *rng.pick(&[0u64, 1, 2, 10, 100]);
        let init_bal_c: Vec<i64> = (0..3)
            .map(|a| match rng.below(4) {
                0 => 0,
                1 => rng.range(1, 500),
                _ => rng.range(500, if a == 2 { 2_000_000 } else { 20_000 }),
            })
            .collect();
        // once in a while a long session: more than a thousand accepted orders on one account
        let long = sub == 0 && rng.chance(1, 500);
        let init_bal_c: Vec<i64> = if long { vec![1_000_000_000; 3] } else { init_bal_c };
        let n = if long { 1_400 + rng.usize(600) } else { 3 + rng.usize(25) };
        let mut ops = Vec::new();
        let mut t = 0u64;
        // rough planner-side balance (buys only) to aim at the affordability boundary
        let mut rough: Vec<i64> = init_bal_c.clone();
        for _ in 0..n {
            if !rng.chance(1, 3) {
                t += *rng.pick(&[0u64, 1, 1, latency_ms, latency_ms + 1, 7]);
            }
            let kind = match if long { 2 + 4 * rng.below(40).min(2) } else { rng.below(10) } {
                0 => OpKindE::FetchBalances,
                1 => OpKindE::FetchTrades {
                    since_ms: if sub == 1 && rng.chance(1, 3) { rng.range(0, 60) } else { rng.range(0, t as i64 + 5) },
                },
                2 => OpKindE::Snapshot,
                3 if sub == 1 => OpKindE::Cancel,
                _ => {
                    let inst = if rng.chance(1, 12) { 3 + rng.usize(5) } else { rng.usize(n_inst) };
                    let buy = rng.chance(3, 5);
                    let qty_m = *rng.pick(&[1000i64, 1000, 500, 2000, 250, 125, 333]);
                    let mut price_c = rng.range(100, 30_000);
                    if buy && inst < n_inst && !long && rng.chance(1, 3) {
                        // aim at the exactly-affordable boundary and one cent beyond it
                        let q = PAIRS_E[inst].1;
                        let denom = Decimal::new(qty_m, 3) * (Decimal::ONE + Decimal::new(fee_bp, 4));
                        let p = (Decimal::new(rough[q], 2) / denom).round_dp(2);
                        let cents = (p * Decimal::from(100)).trunc().to_string().parse::<i64>().unwrap_or(price_c);
                        if cents > 0 {
                            price_c = cents + *rng.pick(&[0i64, 0, 1, -1]);
                        }
                    }
                    if buy && inst < n_inst {
                        let q = PAIRS_E[inst].1;
                        let need = (Decimal::new(price_c, 2) * Decimal::new(qty_m, 3) * (Decimal::ONE + Decimal::new(fee_bp, 4)) * Decimal::from(100)).ceil();
                        let need = need.to_string().parse::<i64>().unwrap_or(i64::MAX);
                        if need <= rough[q] {
                            rough[q] -= need;
                        }
                    }
                    OpKindE::Open {
                        inst,
                        buy,
                        price_c: price_c.max(1),
                        qty_m,
                        market: !rng.chance(1, 10),
                    }
                }
            };
            ops.push(OpE {
                at_ms: t,
                kind,
                drop_after_ms: if sub == 1 && rng.chance(1, 10) {
                    Some(rng.below(latency_ms + 1))
                } else {
                    None
                },
                // clock skew between clients: request (and so fill) timestamps are not monotonic in
                // the exchange's acceptance order
                skew_ms: if sub == 1 && rng.chance(1, 4) { *rng.pick(&[-3i64, 5, 40, 5_000]) } else { 0 },
            });
        }
        if long {
            ops.push(OpE { at_ms: t + 2 * latency_ms + 1, kind: OpKindE::FetchTrades { since_ms: 0 }, drop_after_ms: None, skew_ms: 0 });
            ops.push(OpE { at_ms: t + 2 * latency_ms + 1, kind: OpKindE::Snapshot, drop_after_ms: None, skew_ms: 0 });
        }
        let n_cons = 1 + rng.usize(3);
        ScenarioE {
            latency_ms,
            fee_bp,
            capacity: if sub == 1 { *rng.pick(&[2usize, 4, 8, 1024]) } else { 4096 },
            n_inst,
            init_bal_c,
            ops,
            consumers_lagging: (0..n_cons).map(|c| sub == 1 && c > 0 && rng.chance(1, 2)).collect(),
            kill_exchange_at: if sub == 1 && rng.chance(1, 10) { Some(rng.below(t + 2)) } else { None },
            tokio_seed: rng.next_u64(),
            with_spec: rng.chance(1, 3),
            cid_mod: if rng.chance(1, 5) { 1 + rng.usize(3) } else { 0 },
        }
    }

    fn execute(&self, sc: &ScenarioE, ctx: &ExecCtx<'_>) -> Outcome {
        let pid = "C08";
        let mut log = Log::new(ctx.keep_log);
        let mut stats = RunStats::default();
        let n_inst = sc.n_inst.clamp(1, 3);
        let rt = paused_runtime(sc.tokio_seed);
        let obs: Obs = rt.block_on(async {
            let start = tokio::time::Instant::now();
            let (client_tx, mut tap_rx) = mpsc::unbounded_channel::<MockExchangeRequest>();
            let (exch_tx, exch_rx) = mpsc::unbounded_channel::<MockExchangeRequest>();
            let (event_tx, event_rx) = broadcast::channel::<UnindexedAccountEvent>(sc.capacity.max(1));
            let config = MockExecutionConfig {
                mocked_exchange: EX,
                initial_state: UnindexedAccountSnapshot {
                    exchange: EX,
                    balances: ASSETS
                        .iter()
                        .enumerate()
                        .map(|(i, a)| AssetBalance {
                            asset: AssetNameExchange::from(*a),
                            balance: Balance::new(dc(sc.init_bal_c.get(i).copied().unwrap_or(0)), dc(sc.init_bal_c.get(i).copied().unwrap_or(0))),
                            time_exchange: ts(0),
                        })
                        .collect(),
                    instruments: vec![],
                },
                latency_ms: sc.latency_ms,
                fees_percent: Decimal::new(sc.fee_bp, 4),
            };
            let exchange = MockExchange::new(config, exch_rx, event_tx, mock_instruments(n_inst, sc.with_spec));
            let exchange_handle = tokio::spawn(exchange.run());

            // pass-through tap: logs the exchange's acceptance order (FIFO of its request channel)
            let accept: Arc<Mutex<Vec<AcceptRec>>> = Arc::new(Mutex::new(Vec::new()));
            let accept2 = accept.clone();
            let tap = tokio::spawn(async move {
                while let Some(req) = tap_rx.recv().await {
                    let op = (req.time_request - epoch()).num_nanoseconds().unwrap_or(0).rem_euclid(1_000_000) as usize;
                    accept2.lock().unwrap().push(AcceptRec { op });
                    if exch_tx.send(req).is_err() {
                        break;
                    }
                }
            });

            let client_tx_for_clients = client_tx.clone();
            drop(client_tx);
            let mk_client = move |op: i64, skew_ms: i64| {
                <MockExecution<_> as ExecutionClient>::new(MockExecutionClientConfig {
                    mocked_exchange: EX,
                    clock: mk_clock(start, op, skew_ms),
                    request_tx: client_tx_for_clients.clone(),
                    event_rx: event_rx.resubscribe(),
                })
            };

            // stream consumers
            let mut consumer_handles = Vec::new();
            for lagging in &sc.consumers_lagging {
                let c = mk_client(999_999, 0);
                let lagging = *lagging;
                consumer_handles.push(tokio::spawn(async move {
                    let mut stream = c.account_stream(&[], &[]).await.expect("stream");
                    let mut evs: Vec<StreamEv> = Vec::new();
                    if lagging {
                        // never polls while the run is active; drained by the simulator at the end
                        return (evs, stream, true, 0u64);
                    }
                    loop {
                        match tokio::time::timeout(Duration::from_secs(3600), stream.next()).await {
                            Ok(Some(ev)) => evs.push(match ev.kind {
                                AccountEventKind::BalanceSnapshot(b) => {
                                    let (asset, total, free) = bal_sum(&b.0);
                                    StreamEv::Balance { asset, total, free }
                                }
                                AccountEventKind::Trade(t) => StreamEv::Trade(trade_sum(&t)),
                                _ => StreamEv::Other,
                            }),
                            Ok(None) => return (evs, stream, true, start.elapsed().as_millis() as u64),
                            Err(_) => return (evs, stream, false, start.elapsed().as_millis() as u64),
                        }
                    }
                }));
            }
            tokio::task::yield_now().await;

            // operations: one task (and one client instance) each, so several can be outstanding
            let results: Arc<Mutex<BTreeMap<usize, (u64, OpResult)>>> = Arc::new(Mutex::new(BTreeMap::new()));
            let mut op_handles = Vec::new();
            for (k, op) in sc.ops.iter().enumerate().take(990_000) {
                let c = mk_client(k as i64, op.skew_ms);
                let cid_mod = sc.cid_mod;
                let kind = op.kind.clone();
                let at = op.at_ms;
                let results = results.clone();
                let h = tokio::spawn(async move {
                    tokio::time::sleep_until(start + Duration::from_millis(at)).await;
                    let res = match &kind {
                        OpKindE::Open { inst, buy, price_c, qty_m, market } => {
                            let name = InstrumentNameExchange::from(inst_name(*inst));
                            let req = OrderRequestOpen {
                                key: OrderKey {
                                    exchange: EX,
                                    instrument: &name,
                                    strategy: StrategyId::new(format!("s{k}")),
                                    cid: ClientOrderId::new(format!("e{}", if cid_mod > 0 { k % cid_mod } else { k })),
                                },
                                state: RequestOpen {
                                    side: side_of(*buy),
                                    price: dc(*price_c),
                                    quantity: dm(*qty_m),
                                    kind: if *market { OrderKind::Market } else { OrderKind::Limit },
                                    time_in_force: TimeInForce::ImmediateOrCancel,
                                },
                            };
                            let r = c.open_order(req).await;
                            OpResult::Open(match r.state {
                                Ok(open) => OpenOutcome::Accepted {
                                    order_id: open.id.0.to_string(),
                                    filled: open.filled_quantity,
                                },
                                Err(OrderError::Rejected(ApiError::BalanceInsufficient(a, _))) => OpenOutcome::RejectedBalance { asset: a.name().to_string() },
                                Err(OrderError::Rejected(ApiError::OrderRejected(_))) => OpenOutcome::RejectedKind,
                                Err(OrderError::Rejected(ApiError::InstrumentInvalid(_, _))) => OpenOutcome::RejectedInstrument,
                                Err(OrderError::Connectivity(ConnectivityError::ExchangeOffline(_))) => OpenOutcome::Offline,
                                Err(e) => OpenOutcome::Other(format!("{e:?}")),
                            })
                        }
                        OpKindE::FetchBalances => OpResult::Balances(
                            c.fetch_balances().await.map(|v| v.iter().map(bal_sum).collect()).map_err(|e| err_str(&e)),
                        ),
                        OpKindE::FetchTrades { since_ms } => OpResult::Trades(
                            c.fetch_trades(ts(*since_ms)).await.map(|v| v.iter().map(trade_sum).collect()).map_err(|e| err_str(&e)),
                        ),
                        OpKindE::Snapshot => OpResult::Snapshot(
                            c.account_snapshot(&[], &[]).await
                                .map(|s| (s.balances.iter().map(bal_sum).collect(), s.instruments.iter().map(|i| i.orders.len()).sum()))
                                .map_err(|e| err_str(&e)),
                        ),
                        OpKindE::Cancel => {
                            let name = InstrumentNameExchange::from(inst_name(0));
                            let r = c
                                .cancel_order(OrderRequestCancel {
                                    key: OrderKey {
                                        exchange: EX,
                                        instrument: &name,
                                        strategy: StrategyId::new(format!("s{k}")),
                                        cid: ClientOrderId::new(format!("e{}", if cid_mod > 0 { k % cid_mod } else { k })),
                                    },
                                    state: RequestCancel { id: None },
                                })
                                .await;
                            OpResult::Cancel(match r.state {
                                Err(OrderError::Connectivity(ConnectivityError::ExchangeOffline(_))) => "offline".into(),
                                Err(_) => "err".into(),
                                Ok(_) => "ok?".into(),
                            })
                        }
                    };
                    results.lock().unwrap().insert(k, (start.elapsed().as_millis() as u64, res));
                });
                op_handles.push((k, op.at_ms, op.drop_after_ms, h));
            }
            // fault: caller goes away before the answer
            let mut aborters = Vec::new();
            for (k, at, drop_after, h) in &op_handles {
                if let Some(d) = drop_after {
                    let ah = h.abort_handle();
                    let (at, d, k) = (*at, *d, *k);
                    let results = results.clone();
                    aborters.push(tokio::spawn(async move {
                        tokio::time::sleep_until(start + Duration::from_millis(at + d)).await;
                        // abort only if it has not returned yet
                        if !results.lock().unwrap().contains_key(&k) {
                            ah.abort();
                            results.lock().unwrap().insert(k, (start.elapsed().as_millis() as u64, OpResult::CallerDropped));
                        }
                    }));
                }
            }
            // fault: exchange goes away
            if let Some(kill) = sc.kill_exchange_at {
                let eh = exchange_handle.abort_handle();
                aborters.push(tokio::spawn(async move {
                    tokio::time::sleep_until(start + Duration::from_millis(kill)).await;
                    eh.abort();
                }));
            }
            // wait for every operation (bounded: nothing may hang)
            let last = sc.ops.iter().map(|o| o.at_ms).max().unwrap_or(0);
            for (k, _, _, h) in op_handles {
                let r = tokio::time::timeout_at(start + Duration::from_millis(last + 10 * sc.latency_ms + 60_000), h).await;
                if r.is_err() {
                    results.lock().unwrap().entry(k).or_insert((start.elapsed().as_millis() as u64, OpResult::Hung));
                }
            }
            for a in aborters {
                let _ = a.await;
            }
            // let outstanding notifications (latency) land
            tokio::time::sleep(Duration::from_millis(2 * sc.latency_ms + 5)).await;
            // final reads by the simulator
            let (final_balances, final_trades) = if sc.kill_exchange_at.is_none() {
                let c = mk_client(999_998, 0);
                let fb = c.fetch_balances().await.ok().map(|v| v.iter().map(bal_sum).collect::<Vec<_>>());
                let ft = c.fetch_trades(ts(-3_600_000)).await.ok().map(|v| v.iter().map(trade_sum).collect::<Vec<_>>());
                (fb, ft)
            } else {
                (None, None)
            };
            tokio::time::sleep(Duration::from_millis(sc.latency_ms + 2)).await;
            let end_ms = start.elapsed().as_millis() as u64;
            // stop: close the request path, collect consumers
            drop(mk_client);
            exchange_handle.abort();
            let _ = tap.await;
            let mut consumers = Vec::new();
            for h in consumer_handles {
                // consumers that keep up are parked in a 1 h (virtual) poll timeout: abort them by time
                match h.await {
                    Ok((mut evs, mut stream, ended, ended_at)) => {
                        // a stream that only ended because the simulator stopped the exchange kept up
                        let mut ended = ended && ended_at < end_ms;
                        if evs.is_empty() && ended_at == 0 {
                            // lagging consumer: drain what the broadcast channel still holds for it
                            ended = false;
                            loop {
                                match tokio::time::timeout(Duration::from_millis(1), stream.next()).await {
                                    Ok(Some(ev)) => evs.push(match ev.kind {
                                        AccountEventKind::BalanceSnapshot(b) => {
                                            let (asset, total, free) = bal_sum(&b.0);
                                            StreamEv::Balance { asset, total, free }
                                        }
                                        AccountEventKind::Trade(t) => StreamEv::Trade(trade_sum(&t)),
                                        _ => StreamEv::Other,
                                    }),
                                    Ok(None) => {
                                        ended = true;
                                        break;
                                    }
                                    Err(_) => break,
                                }
                            }
                        }
                        consumers.push((evs, ended));
                    }
                    Err(_) => consumers.push((vec![], true)),
                }
            }
            let accept = accept.lock().unwrap().clone();
            let results = results.lock().unwrap().clone();
            Obs {
                accept,
                results,
                consumers,
                final_balances,
                final_trades,
                end_ms,
            }
        });
        drop(rt);

        stats.steps = sc.ops.len() as u64;
        stats.sim_time_ms = obs.end_ms;
        for rec in &obs.accept {
            if let Some(op) = sc.ops.get(rec.op) {
                log.sig(match &op.kind {
                    OpKindE::Open { buy: true, .. } => "ob",
                    OpKindE::Open { buy: false, .. } => "os",
                    OpKindE::FetchBalances => "fb",
                    OpKindE::FetchTrades { .. } => "ft",
                    OpKindE::Snapshot => "sn",
                    OpKindE::Cancel => "ca",
                });
            }
            log.line(|| format!("accepted #{}: op {} {:?} -> {:?}", rec.op, rec.op, sc.ops.get(rec.op).map(|o| &o.kind), obs.results.get(&rec.op)));
        }
        for (c, (evs, ended)) in obs.consumers.iter().enumerate() {
            log.line(|| format!("consumer {c}: {} events, stream ended={ended}", evs.len()));
        }
        log.line(|| format!("final balances {:?}", obs.final_balances));
        if sc.ops.iter().any(|o| o.drop_after_ms.is_some()) && obs.results.values().any(|r| r.1 == OpResult::CallerDropped) {
            stats.fault("response_receiver_dropped");
        }
        if sc.kill_exchange_at.is_some() {
            stats.fault("exchange_shutdown");
            if obs.results.values().any(|r| matches!(&r.1, OpResult::Open(OpenOutcome::Offline) | OpResult::Balances(Err(_)) | OpResult::Trades(Err(_)) | OpResult::Snapshot(Err(_)))) {
                stats.probe("offline_error_after_shutdown");
            }
        }
        if sc.consumers_lagging.iter().any(|l| *l) {
            stats.fault("lagging_consumer");
        }
        if sc.capacity < 1024 {
            stats.fault("small_broadcast_capacity");
        }
        if sc.ops.iter().any(|o| o.skew_ms != 0) {
            stats.fault("client_clock_skew");
        }
        // concurrency probe: two operations outstanding at the same time
        let mut spans: Vec<(u64, u64)> = sc.ops.iter().enumerate().filter_map(|(k, o)| obs.results.get(&k).map(|r| (o.at_ms, r.0))).collect();
        spans.sort();
        if spans.windows(2).any(|w| w[1].0 < w[0].1 || (w[1].0 == w[0].0)) {
            stats.fault("concurrent_outstanding_requests");
            stats.probe("operations_overlap");
        }

        if obs.final_trades.as_ref().is_some_and(|t| t.len() > 1_000) {
            stats.probe("session_with_over_1000_fills");
        }
        // pass 1: the statement's model; pass 2 (only if pass 1 fails): the recorded-defect variant
        let mut violation: Option<Violation> = None;
        let has_sell = sc.ops.iter().any(|o| matches!(o.kind, OpKindE::Open { buy: false, .. }));
        const KEY: &str = "C08-sell-order-checks-and-debits-quote-asset";
        match judge(sc, &obs, false, Some(&mut stats)) {
            None => {}
            Some((rule, step, detail)) => {
                let pass2 = if has_sell { Some(judge(sc, &obs, true, None)) } else { None };
                match pass2 {
                    // the whole history matches the recorded 'sell spends quote' behaviour exactly
                    Some(None) => {
                        violation = report(ctx, &mut stats, pid, &rule, step, detail, Some(KEY));
                    }
                    // it deviates from the recorded behaviour too: report that deviation (it is the
                    // new one) when the finding is on file, else the statement-model deviation
                    Some(Some((r2, s2, d2))) if ctx.is_known(KEY) => {
                        violation = report(
                            ctx,
                            &mut stats,
                            pid,
                            &r2,
                            s2,
                            format!("{d2} [judged with sells spending the quote asset, the recorded finding {KEY}]"),
                            None,
                        );
                    }
                    _ => {
                        violation = report(ctx, &mut stats, pid, &rule, step, detail, None);
                    }
                }
            }
        }
        Outcome {
            violation,
            stats,
            log_hash: log.hash(),
            signature: log.signature(),
            log: log.lines,
        }
    }

    fn shrink_len(&self, sc: &ScenarioE) -> usize {
        sc.ops.len()
    }
    fn shrink_remove(&self, sc: &ScenarioE, from: usize, to: usize) -> ScenarioE {
        let mut s = sc.clone();
        s.ops.drain(from..to);
        s
    }
    fn simplify(&self, sc: &ScenarioE) -> Vec<ScenarioE> {
        let mut out = Vec::new();
        if sc.kill_exchange_at.is_some() {
            let mut s = sc.clone();
            s.kill_exchange_at = None;
            out.push(s);
        }
        if sc.consumers_lagging.len() > 1 || sc.consumers_lagging.iter().any(|l| *l) {
            let mut s = sc.clone();
            s.consumers_lagging = vec![false];
            out.push(s);
        }
        if sc.capacity != 4096 {
            let mut s = sc.clone();
            s.capacity = 4096;
            out.push(s);
        }
        if sc.latency_ms != 0 {
            let mut s = sc.clone();
            s.latency_ms = 0;
            out.push(s);
        }
        if sc.fee_bp != 0 {
            let mut s = sc.clone();
            s.fee_bp = 0;
            out.push(s);
        }
        if sc.ops.iter().any(|o| o.at_ms != 0) {
            let mut s = sc.clone();
            s.ops.iter_mut().for_each(|o| o.at_ms = 0);
            out.push(s);
        }
        for (k, o) in sc.ops.iter().enumerate() {
            if o.drop_after_ms.is_some() {
                let mut s = sc.clone();
                s.ops[k].drop_after_ms = None;
                out.push(s);
            }
            if o.skew_ms != 0 {
                let mut s = sc.clone();
                s.ops[k].skew_ms = 0;
                out.push(s);
            }
        }
        out
    }

    fn rule_text(&self) -> String {
        "each run = one PRNG-planned program of 3-27 concurrent operations (market/limit buy/sell orders on known/unknown instruments with prices aimed at the exactly-affordable boundary and one cent beyond, balance / trade / snapshot reads, cancels) issued at seeded virtual instants by real MockExecution clients against a real MockExchange::run task (latency 0-100 ms, fee 0-50 %, any initial balances), with 1-3 account-stream consumers. Faults (2nd sub-batch): consumers that never poll + small broadcast capacity, callers dropped before the answer, exchange task killed. Oracle = sequential ledger applied in the exchange's acceptance order (tap on its request channel, global sequence numbers): L1 accept iff market kind, known instrument and enough of the asset being spent (quote incl. fees for a buy, base incl. fees for a sell), L2 exactly that asset debited by exactly that amount (final balances), L3 never negative, L4 one full fill with fresh order/trade ids and fee = configured percentage of traded value, L5 every read at position k reflects the k-1 preceding operations, L6 a consumer that keeps up sees exactly one balance and one trade notification per accepted order and nobody sees spurious ones, L7 no call hangs (offline error after shutdown). distinct = distinct acceptance-order skeleton; non-trivial = a fault (concurrent outstanding requests, lag, dropped caller, shutdown) fired AND a probe hit".into()
    }
    fn components_real(&self) -> Vec<&'static str> {
        vec![
            "barter_execution::exchange::mock::MockExchange::{new, run, open_order, account_snapshot, respond_with_latency, send_notifications_with_latency}",
            "barter_execution::exchange::mock::account::AccountState",
            "barter_execution::client::mock::MockExecution (ExecutionClient impl, broadcast account stream)",
            "tokio mpsc / oneshot / broadcast, paused clock",
        ]
    }
    fn components_stub(&self) -> Vec<&'static str> {
        vec![
            "client programs (seeded operations at virtual instants)",
            "request-channel tap (pass-through, logs acceptance order)",
            "stream consumers (keeping up / never polling)",
        ]
    }
    fn fault_kinds(&self) -> Vec<&'static str> {
        vec![
            "concurrent_outstanding_requests",
            "lagging_consumer",
            "small_broadcast_capacity",
            "response_receiver_dropped",
            "exchange_shutdown",
            "client_clock_skew",
        ]
    }
    fn probe_kinds(&self) -> Vec<&'static str> {
        vec![
            "operations_overlap",
            "exactly_affordable_boundary",
            "rejected_for_insufficient_balance",
            "balance_read_checked",
            "trade_read_checked",
            "snapshot_read_checked",
            "consumer_kept_up_saw_all",
            "lagging_consumer_stream_ended",
            "offline_error_after_shutdown",
            "session_with_over_1000_fills",
        ]
    }
    fn assumptions(&self) -> Vec<String> {
        vec![
            "the linearization point of every operation is its position in the exchange's request channel, observed through a pass-through tap (adds one scheduling hop, preserves FIFO)".into(),
            "operations are tagged through the sub-millisecond (nanosecond) digits of their request timestamp and the order's strategy id".into(),
            "notification order across different orders is not constrained; within one order balance-before-trade is not asserted either, only multiplicity and content".into(),
        ]
    }
}

fn err_str(e: &UnindexedClientError) -> String {
    match e {
        UnindexedClientError::Connectivity(ConnectivityError::ExchangeOffline(_)) => "offline".into(),
        other => format!("{other:?}"),
    }
}
