//! Sim B — real `Engine` driven synchronously through `Engine::process`, with simulator-owned
//! execution links, strategy, risk manager, clock and event feed.
//! Decides C03 (requests), C14 (connectivity), C15 (unrealised PnL), C19 (filtered commands).

use crate::{
    engine_world::*,
    kit::{ExecCtx, Log, Outcome, RunStats, Sim, Violation, report, rng::Rng},
    world::*,
};
use barter::engine::{
    EngineOutput, Processor,
    action::{ActionOutput, send_requests::SendRequestsOutput},
    audit::EngineAudit,
    error::EngineError,
    state::{
        connectivity::Health, instrument::data::InstrumentDataState, trading::TradingState,
    },
};
use barter::execution::request::ExecutionRequest;
use barter_execution::order::{
    Order,
    id::ClientOrderId,
    request::{OrderRequestCancel, OrderRequestOpen, RequestCancel, RequestOpen},
    state::ActiveOrderState,
};
use barter_instrument::{
    Side,
    asset::AssetIndex,
    exchange::{ExchangeId, ExchangeIndex},
    instrument::InstrumentIndex,
};
use barter_integration::Terminal;
use rust_decimal::Decimal;
use std::collections::BTreeMap;

#[derive(Clone, Copy, PartialEq, Eq, Debug)]
pub enum PropB {
    C03,
    C14,
    C15,
    C19,
}

pub struct SimB {
    pub prop: PropB,
}

/// Normalised request used for multiset comparisons between what the scenario generated, what
/// the audit reports and what the links received.
#[derive(Clone, Debug, PartialEq, Eq, PartialOrd, Ord)]
pub struct Req {
    pub open: bool,
    pub ex: usize,
    pub inst: usize,
    pub cid: String,
    pub detail: String,
}

pub fn req_open(r: &OrderRequestOpen) -> Req {
    Req {
        open: true,
        ex: r.key.exchange.0,
        inst: r.key.instrument.0,
        cid: r.key.cid.0.to_string(),
        detail: format!("{}|{:?}", r.key.strategy.0, r.state),
    }
}

pub fn req_cancel(r: &OrderRequestCancel) -> Req {
    Req {
        open: false,
        ex: r.key.exchange.0,
        inst: r.key.instrument.0,
        cid: r.key.cid.0.to_string(),
        detail: format!("{}|{:?}", r.key.strategy.0, r.state),
    }
}

pub fn req_exec(r: &ExecutionRequest) -> Option<Req> {
    match r {
        ExecutionRequest::Open(o) => Some(req_open(o)),
        ExecutionRequest::Cancel(c) => Some(req_cancel(c)),
        ExecutionRequest::Shutdown => None,
    }
}

#[derive(Default, Debug)]
pub struct ReportedSet {
    pub sent: Vec<Req>,
    pub err_recoverable: Vec<Req>,
    pub err_unrecoverable: Vec<Req>,
}

impl ReportedSet {
    fn add_opens(&mut self, o: &SendRequestsOutput<RequestOpen>) {
        self.sent.extend(o.sent.iter().map(req_open));
        for (r, e) in o.errors.iter() {
            match e {
                EngineError::Recoverable(_) => self.err_recoverable.push(req_open(r)),
                EngineError::Unrecoverable(_) => self.err_unrecoverable.push(req_open(r)),
            }
        }
    }
    fn add_cancels(&mut self, o: &SendRequestsOutput<RequestCancel>) {
        self.sent.extend(o.sent.iter().map(req_cancel));
        for (r, e) in o.errors.iter() {
            match e {
                EngineError::Recoverable(_) => self.err_recoverable.push(req_cancel(r)),
                EngineError::Unrecoverable(_) => self.err_unrecoverable.push(req_cancel(r)),
            }
        }
    }
    fn all(&self) -> Vec<Req> {
        let mut v = self.sent.clone();
        v.extend(self.err_recoverable.iter().cloned());
        v.extend(self.err_unrecoverable.iter().cloned());
        v
    }
}

#[derive(Default, Debug)]
pub struct Decoded {
    pub cmd: Option<ReportedSet>,
    pub cmd_kind: Option<&'static str>,
    pub algo: Option<ReportedSet>,
    pub algo_refused: Vec<Req>,
    pub disconnects: Vec<(&'static str, ExchangeId)>,
    pub position_exits: usize,
    pub trading_disabled: usize,
    pub n_errors: usize,
    pub terminal: bool,
    pub is_process: bool,
}

pub fn decode(audit: &EngineAudit<Ev, EngineOutput<u64, ExchangeId>>) -> Decoded {
    let mut d = Decoded::default();
    let EngineAudit::Process(pa) = audit else {
        d.terminal = true;
        return d;
    };
    d.is_process = true;
    d.n_errors = pa.errors.len();
    d.terminal = pa.is_terminal();
    for out in pa.outputs.iter() {
        match out {
            EngineOutput::Commanded(a) => {
                let mut set = ReportedSet::default();
                match a {
                    ActionOutput::GenerateAlgoOrders(g) => {
                        d.cmd_kind = Some("algo");
                        set.add_cancels(&g.cancels_and_opens.cancels);
                        set.add_opens(&g.cancels_and_opens.opens);
                    }
                    ActionOutput::CancelOrders(c) => {
                        d.cmd_kind = Some("cancel");
                        set.add_cancels(c);
                    }
                    ActionOutput::OpenOrders(o) => {
                        d.cmd_kind = Some("open");
                        set.add_opens(o);
                    }
                    ActionOutput::ClosePositions(co) => {
                        d.cmd_kind = Some("close");
                        set.add_cancels(&co.cancels);
                        set.add_opens(&co.opens);
                    }
                }
                d.cmd = Some(set);
            }
            EngineOutput::AlgoOrders(g) => {
                let mut set = ReportedSet::default();
                set.add_cancels(&g.cancels_and_opens.cancels);
                set.add_opens(&g.cancels_and_opens.opens);
                d.algo = Some(set);
                d.algo_refused
                    .extend(g.cancels_refused.iter().map(|r| req_cancel(&r.item)));
                d.algo_refused
                    .extend(g.opens_refused.iter().map(|r| req_open(&r.item)));
            }
            EngineOutput::AccountDisconnect(e) => d.disconnects.push(("account", *e)),
            EngineOutput::MarketDisconnect(e) => d.disconnects.push(("market", *e)),
            EngineOutput::PositionExit(_) => d.position_exits += 1,
            EngineOutput::OnTradingDisabled(_) => d.trading_disabled += 1,
        }
    }
    d
}

fn sorted(mut v: Vec<Req>) -> Vec<Req> {
    v.sort();
    v
}

type OrderEntry = Option<Order<ExchangeIndex, InstrumentIndex, ActiveOrderState>>;

fn entry(state: &St, inst: usize, cid: &str) -> OrderEntry {
    state
        .instruments
        .0
        .get_index(inst)
        .and_then(|(_, s)| s.orders.0.get(&ClientOrderId::new(cid)).cloned())
}

#[derive(Clone, Copy, PartialEq, Eq, Debug)]
enum Outcome3 {
    Delivered,
    Recoverable,
    Unrecoverable,
}

fn expected_outcome(w: &WorldB, ex: usize) -> Outcome3 {
    if ex >= w.n_ex {
        return Outcome3::Unrecoverable;
    }
    match w.link_mode(ex) {
        None => Outcome3::Unrecoverable,
        Some(LinkMode::Closed) => Outcome3::Unrecoverable,
        Some(LinkMode::Unhealthy) => Outcome3::Recoverable,
        Some(LinkMode::Healthy) => Outcome3::Delivered,
    }
}

/// Documented estimate: signed price move on the open quantity minus pro-rata estimated exit fees.
pub fn pnl_estimate(
    side: Side,
    entry: Decimal,
    qty: Decimal,
    qty_max: Decimal,
    fees_enter: Decimal,
    price: Decimal,
) -> Decimal {
    let exit_fees = fees_enter * (qty / qty_max);
    let moved = match side {
        Side::Buy => (price - entry) * qty,
        Side::Sell => (entry - price) * qty,
    };
    moved - exit_fees
}

pub fn close_enough(a: Decimal, b: Decimal) -> bool {
    (a - b).abs() <= Decimal::new(1, 9)
}

impl SimB {
    fn pid(&self) -> &'static str {
        match self.prop {
            PropB::C03 => "C03",
            PropB::C14 => "C14",
            PropB::C15 => "C15",
            PropB::C19 => "C19",
        }
    }
    fn focus(&self) -> Focus {
        match self.prop {
            PropB::C03 => Focus::Requests,
            PropB::C14 => Focus::Connectivity,
            PropB::C15 => Focus::Pnl,
            PropB::C19 => Focus::Commands,
        }
    }
}

/// Route every market / account item and disconnect notice through a real reconnecting stream per
/// exchange link (`init_reconnecting_stream` + backoff + `with_reconnection_events` +
/// `forward_to`, wired like `SystemBuild::init`), on a paused runtime; step k happens at virtual
/// time 10(k+1) ms. Returns the events in the order the shared feed received them.
fn feed_through_reconnecting_links(w: &WorldB, sc: &ScenarioB) -> Result<Vec<Ev>, String> {
    use barter_data::streams::{
        consumer::StreamKey,
        reconnect::stream::{ReconnectingStream, ReconnectionBackoffPolicy, init_reconnecting_stream},
    };
    use barter_integration::channel::{Tx, mpsc_unbounded};
    use std::{collections::VecDeque, sync::{Arc, Mutex}, time::Duration};

    #[derive(Clone)]
    enum LinkItem {
        Market(barter_data::event::MarketEvent<InstrumentIndex, barter_data::event::DataKind>),
        Account(barter_execution::AccountEvent),
    }
    // per (exchange, is_market): connections = (items with their instants, end instant)
    type Conn = (Vec<(u64, LinkItem)>, Option<u64>);
    let mut links: Vec<Vec<Conn>> = vec![vec![(vec![], None)]; w.n_ex * 2];
    let mut direct: Vec<(u64, Ev)> = Vec::new();
    let mut k = 0u64;
    for st in &sc.steps {
        if !w.ev_valid(sc, &st.ev) {
            continue;
        }
        k += 1;
        let at = 10 * k;
        let ev = w.to_event(sc, &st.ev);
        match (&st.ev, ev) {
            (EvB::MarketReconnecting { ex }, _) => {
                let l = &mut links[*ex * 2];
                l.last_mut().unwrap().1 = Some(at);
                l.push((vec![], None));
            }
            (EvB::AccountReconnecting { ex }, _) => {
                let l = &mut links[*ex * 2 + 1];
                l.last_mut().unwrap().1 = Some(at);
                l.push((vec![], None));
            }
            (EvB::Market { inst, .. }, barter::EngineEvent::Market(barter_data::streams::consumer::MarketStreamEvent::Item(m))) => {
                links[w.inst_ex[*inst] * 2].last_mut().unwrap().0.push((at, LinkItem::Market(m)));
            }
            (_, barter::EngineEvent::Account(barter::execution::AccountStreamEvent::Item(a))) => {
                let e = a.exchange.0;
                links[e * 2 + 1].last_mut().unwrap().0.push((at, LinkItem::Account(a)));
            }
            (_, other) => direct.push((at, other)),
        }
    }
    let horizon = 10 * (k + 2);
    let rt = crate::sim_client::paused_runtime(0x5eed ^ k);
    rt.block_on(async {
        let start = tokio::time::Instant::now();
        let (feed_tx, mut feed_rx) = mpsc_unbounded::<Ev>();
        type MarketLink = std::pin::Pin<Box<dyn futures::Stream<Item = barter_data::streams::reconnect::Event<ExchangeId, Result<barter_data::event::MarketEvent<InstrumentIndex, barter_data::event::DataKind>, String>>> + Send>>;
        let mut market_links: Vec<MarketLink> = Vec::new();
        for (li, conns) in links.into_iter().enumerate() {
            let (e, is_market) = (li / 2, li % 2 == 0);
            let queue = Arc::new(Mutex::new(conns.into_iter().collect::<VecDeque<Conn>>()));
            let init = move || {
                let next = queue.lock().unwrap().pop_front();
                async move {
                    let Some((items, end)) = next else {
                        return std::future::pending::<Result<_, String>>().await;
                    };
                    let s = futures::stream::unfold((items.into_iter(), end, false), move |(mut it, end, done)| async move {
                        if done {
                            return None;
                        }
                        match it.next() {
                            Some((at, item)) => {
                                tokio::time::sleep_until(start + Duration::from_millis(at)).await;
                                Some((item, (it, end, false)))
                            }
                            None => match end {
                                Some(at) => {
                                    tokio::time::sleep_until(start + Duration::from_millis(at)).await;
                                    None
                                }
                                None => std::future::pending().await,
                            },
                        }
                    });
                    Ok(Box::pin(s))
                }
            };
            let stream = init_reconnecting_stream(init).await.map_err(|e: String| e)?;
            let key = StreamKey::new_general(if is_market { "market_stream" } else { "account_stream" }, EXS[e]);
            let composed = stream
                .with_reconnect_backoff::<_, String>(
                    ReconnectionBackoffPolicy { backoff_ms_initial: 125, backoff_multiplier: 2, backoff_ms_max: 60_000 },
                    key,
                )
                .with_reconnection_events(EXS[e]);
            let tx = feed_tx.clone();
            if is_market {
                // market links of all exchanges are merged and error-handled as one stream, the way
                // init_indexed_multi_exchange_market_stream composes them
                let s = futures::StreamExt::map(composed, |ev| match ev {
                    barter_data::streams::reconnect::Event::Reconnecting(x) => barter_data::streams::reconnect::Event::Reconnecting(x),
                    barter_data::streams::reconnect::Event::Item(LinkItem::Market(m)) => barter_data::streams::reconnect::Event::Item(Ok::<_, String>(m)),
                    barter_data::streams::reconnect::Event::Item(LinkItem::Account(_)) => unreachable!(),
                });
                market_links.push(Box::pin(s));
                drop(tx);
            } else {
                let s = futures::StreamExt::map(composed, |ev| match ev {
                    barter_data::streams::reconnect::Event::Reconnecting(x) => barter::execution::AccountStreamEvent::Reconnecting(x),
                    barter_data::streams::reconnect::Event::Item(LinkItem::Account(a)) => barter::execution::AccountStreamEvent::Item(a),
                    barter_data::streams::reconnect::Event::Item(LinkItem::Market(_)) => unreachable!(),
                });
                tokio::spawn(s.forward_to(tx));
            }
        }
        {
            let merged = futures::stream::select_all(market_links).with_error_handler(|_error: String| {});
            let s = futures::StreamExt::map(merged, |ev| match ev {
                barter_data::streams::reconnect::Event::Reconnecting(x) => barter_data::streams::consumer::MarketStreamEvent::Reconnecting(x),
                barter_data::streams::reconnect::Event::Item(m) => barter_data::streams::consumer::MarketStreamEvent::Item(m),
            });
            tokio::spawn(s.forward_to(feed_tx.clone()));
        }
        // commands / trading-state updates go straight into the feed (System::feed_tx)
        let tx = feed_tx.clone();
        tokio::spawn(async move {
            for (at, ev) in direct {
                tokio::time::sleep_until(start + Duration::from_millis(at)).await;
                if tx.send(ev).is_err() {
                    break;
                }
            }
        });
        drop(feed_tx);
        let mut arrived = Vec::new();
        loop {
            match tokio::time::timeout_at(start + Duration::from_millis(horizon), feed_rx.rx.recv()).await {
                Ok(Some(ev)) => arrived.push(ev),
                _ => break,
            }
        }
        Ok(arrived)
    })
}

pub fn ev_tag(ev: &EvB) -> String {
    match ev {
        EvB::Market { inst, kind, .. } => format!(
            "m{inst}:{}",
            match kind {
                MktB::Trade { .. } => "t",
                MktB::L1 { .. } => "l1",
                MktB::Candle => "c",
                MktB::Liquidation => "q",
            }
        ),
        EvB::MarketReconnecting { ex } => format!("mr{ex}"),
        EvB::AccountReconnecting { ex } => format!("ar{ex}"),
        EvB::OrderReport { ord, rep } => format!(
            "or{ord}:{}",
            match rep {
                RepB::Open { .. } => "o",
                RepB::FullyFilled => "ff",
                RepB::Cancelled { .. } => "c",
                RepB::Expired => "e",
                RepB::Failed => "f",
            }
        ),
        EvB::CancelResp { ord, ok, .. } => format!("cr{ord}:{ok}"),
        EvB::Balance { asset, .. } => format!("b{asset}"),
        EvB::Fill { inst, buy, .. } => format!("f{inst}:{buy}"),
        EvB::Trading { enabled } => format!("ts:{enabled}"),
        EvB::CmdOpen { ords } => format!("co{}", ords.len()),
        EvB::CmdCancel { ords } => format!("cc{}", ords.len()),
        EvB::CmdCancelOrders { filter } => format!("cco:{}", filter_tag(filter)),
        EvB::CmdClosePositions { filter } => format!("ccp:{}", filter_tag(filter)),
        EvB::Shutdown => "sd".into(),
    }
}

fn filter_tag(f: &FilterB) -> String {
    match f {
        FilterB::None => "n".into(),
        FilterB::Exchanges(v) => format!("e{v:?}"),
        FilterB::Instruments(v) => format!("i{v:?}"),
        FilterB::UnderlyingsOf(v) => format!("u{v:?}"),
    }
}

impl Sim for SimB {
    type Scenario = ScenarioB;

    fn name(&self) -> &'static str {
        "B:engine+execution-links"
    }
    fn property(&self) -> &'static str {
        self.pid()
    }
    fn sub_batches(&self) -> Vec<&'static str> {
        match self.prop {
            PropB::C14 => vec!["feed_interleavings", "links_as_real_reconnecting_streams"],
            PropB::C15 => vec!["feed_interleavings"],
            _ => vec!["fault_free_links", "faulty_links_and_refusals"],
        }
    }
    fn default_runs(&self) -> (u64, u64) {
        match self.prop {
            PropB::C03 => (300_000, 8_000_000),
            PropB::C14 => (600_000, 15_000_000),
            PropB::C15 => (1_000_000, 20_000_000),
            PropB::C19 => (300_000, 8_000_000),
        }
    }

    fn plan(&self, rng: &mut Rng, sub: usize) -> ScenarioB {
        let mut sc = plan_b(
            rng,
            &PlanCfg {
                focus: self.focus(),
                faults: sub == 1 && self.prop != PropB::C14,
            },
        );
        if self.prop == PropB::C14 && sub == 1 {
            sc.via_streams = true;
        }
        sc
    }

    fn execute(&self, sc: &ScenarioB, ctx: &ExecCtx<'_>) -> Outcome {
        let pid = self.pid();
        let (w, mut engine) = WorldB::build(sc);
        let mut log = Log::new(ctx.keep_log);
        let mut stats = RunStats::default();
        let mut violation: Option<Violation> = None;
        // C14 model: (market healthy, account healthy) per exchange, all reconnecting at start
        let mut conn: Vec<(bool, bool)> = vec![(false, false); w.n_ex];
        // C15: last expected pnl per instrument is recomputed from the engine's own fields
        let mut in_flight_cancels_seen = false;

        macro_rules! fail {
            ($l:lifetime, $rule:expr, $step:expr, $key:expr, $($arg:tt)*) => {{
                violation = report(ctx, &mut stats, pid, $rule, $step, format!($($arg)*), $key);
                if violation.is_some() {
                    break $l;
                }
            }};
        }

        // C14, second sub-batch: the notices must come out of the real reconnect combinators at the
        // right places for the right exchange before the engine ever sees them
        if self.prop == PropB::C14 && sc.via_streams {
            stats.fault("links_are_reconnecting_streams");
            let expected: Vec<Ev> = sc.steps.iter().filter(|st| w.ev_valid(sc, &st.ev)).map(|st| w.to_event(sc, &st.ev)).collect();
            match feed_through_reconnecting_links(&w, sc) {
                Err(e) => {
                    violation = report(ctx, &mut stats, pid, "K4_feed_through_reconnect_streams", 0, e, None);
                }
                Ok(arrived) => {
                    if arrived != expected {
                        let k = arrived.iter().zip(expected.iter()).position(|(a, b)| a != b).unwrap_or(arrived.len().min(expected.len()));
                        violation = report(
                            ctx,
                            &mut stats,
                            pid,
                            "K4_feed_through_reconnect_streams",
                            k,
                            format!(
                                "events forwarded by the per-link reconnecting streams differ from the link scripts at position {k}: got {:?}, expected {:?} ({} arrived, {} expected)",
                                arrived.get(k), expected.get(k), arrived.len(), expected.len()
                            ),
                            None,
                        );
                    } else {
                        stats.probe("notices_produced_by_reconnect_combinators");
                    }
                }
            }
            if violation.is_some() {
                return Outcome { violation, stats, log_hash: log.hash(), signature: log.signature(), log: log.lines };
            }
        }

        // C14: the market side of the feed as a recorded dataset served by the library's in-memory
        // back-test source: items and disconnect notices come out as recorded, the leading and trailing
        // notices included (a dataset may begin or end while a venue is down)
        if self.prop == PropB::C14 && violation.is_none() {
            use barter::backtest::market_data::{BacktestMarketData, MarketDataInMemory};
            use futures::StreamExt;
            let market: Vec<barter_data::streams::consumer::MarketStreamEvent<InstrumentIndex, barter_data::event::DataKind>> = sc
                .steps
                .iter()
                .filter(|st| w.ev_valid(sc, &st.ev))
                .filter_map(|st| match w.to_event(sc, &st.ev) {
                    barter::EngineEvent::Market(m) => Some(m),
                    _ => None,
                })
                .collect();
            if market.iter().any(|m| matches!(m, barter_data::streams::consumer::MarketStreamEvent::Item(_))) {
                let source = MarketDataInMemory::new(std::sync::Arc::new(market.clone()));
                let served: Vec<_> = futures::executor::block_on(async {
                    match source.stream().await {
                        Ok(s) => s.collect::<Vec<_>>().await,
                        Err(_) => Vec::new(),
                    }
                });
                if served != market {
                    let k = served.iter().zip(market.iter()).position(|(a, b)| a != b).unwrap_or(served.len().min(market.len()));
                    violation = report(
                        ctx,
                        &mut stats,
                        pid,
                        "K4_feed_through_in_memory_source",
                        k,
                        format!(
                            "the in-memory market data source serves {} of the {} recorded market events; first difference at position {k}: served {:?}, recorded {:?}",
                            served.len(),
                            market.len(),
                            served.get(k),
                            market.get(k)
                        ),
                        None,
                    );
                }
                if matches!(market.first(), Some(barter_data::streams::consumer::MarketStreamEvent::Reconnecting(_))) || matches!(market.last(), Some(barter_data::streams::consumer::MarketStreamEvent::Reconnecting(_))) {
                    stats.probe("dataset_begins_or_ends_with_disconnect_notice");
                }
            }
        }
        // what the user-defined global data must have been updated with so far (market items,
        // account items), whatever the trading state
        let mut n_global = crate::world::CountGlobal::default();
        'run: for (step, st) in sc.steps.iter().enumerate() {
            if !w.ev_valid(sc, &st.ev) {
                continue;
            }
            stats.steps += 1;
            let n_flips = w.apply_flips(&st.flips);
            for (e, m) in st.flips.iter().take(n_flips) {
                let _ = e;
                match m {
                    LinkMode::Unhealthy => stats.fault("link_unhealthy"),
                    LinkMode::Closed => stats.fault("link_closed"),
                    LinkMode::Healthy => stats.fault("link_healed"),
                }
            }
            w.arm_script(sc, &st.algo);
            if st.restore {
                // restart from persisted state: what is written down and read back must be the state
                // (the whole EngineState does not round-trip through JSON - some of its maps have
                // structured keys - so the parts that do are persisted one by one)
                match serde_json::to_string(&engine.state.connectivity).ok().and_then(|text| serde_json::from_str(&text).ok()) {
                    Some(restored) => {
                        engine.state.connectivity = restored;
                        stats.fault("state_persisted_and_restored");
                    }
                    None => stats.probe("state_not_serialisable_as_json"),
                }
                if let Some(restored) = serde_json::to_string(&engine.state.trading).ok().and_then(|text| serde_json::from_str(&text).ok()) {
                    engine.state.trading = restored;
                }
                let written = engine.state.instruments.clone();
                if let Some(restored) = serde_json::to_string(&engine.state.instruments).ok().and_then(|text| serde_json::from_str(&text).ok()) {
                    engine.state.instruments = restored;
                }
                if engine.state.instruments != written {
                    let which = written
                        .instruments(&barter::engine::state::instrument::filter::InstrumentFilter::None)
                        .zip(engine.state.instruments.instruments(&barter::engine::state::instrument::filter::InstrumentFilter::None))
                        .find(|(a, b)| a != b)
                        .map(|(a, b)| format!("written {:?} / {:?} / {:?}, read back {:?} / {:?} / {:?}", a.position, a.orders, a.data, b.position, b.orders, b.data));
                    fail!('run, "S0_restored_state_differs", step, None, "instrument state read back from its own JSON differs from what was written: {}", which.unwrap_or_default());
                }
            }
            let before = engine.state.clone();
            let recv_before: Vec<usize> = (0..w.n_ex).map(|e| w.received_len(e)).collect();
            let (disc_before, algo_calls_before) = {
                let s = w.script.lock().unwrap();
                (s.disconnects.len(), s.algo_calls)
            };
            let event = w.to_event(sc, &st.ev);
            log.sig(&ev_tag(&st.ev));

            // state after the event has been applied but before any request is sent
            // (the real update code on a clone; only used as the reference point for in-flight marks)
            let mut mid = before.clone();
            match &event {
                barter::EngineEvent::Account(barter::execution::AccountStreamEvent::Item(a)) => {
                    mid.update_from_account(a);
                }
                barter::EngineEvent::Market(
                    barter_data::streams::consumer::MarketStreamEvent::Item(m),
                ) => {
                    mid.update_from_market(m);
                }
                _ => {}
            }

            let is_market_item = matches!(&event, barter::EngineEvent::Market(barter_data::streams::consumer::MarketStreamEvent::Item(_)));
            let is_account_item = matches!(&event, barter::EngineEvent::Account(barter::execution::AccountStreamEvent::Item(_)));
            let audit = engine.process(event);
            let d = decode(&audit);
            let after = &engine.state;
            let received: Vec<Vec<Req>> = (0..w.n_ex)
                .map(|e| {
                    w.received_since(e, recv_before[e])
                        .iter()
                        .filter_map(req_exec)
                        .collect()
                })
                .collect();
            let n_received: usize = received.iter().map(Vec::len).sum();
            log.line(|| {
                format!(
                    "step {step}: {:?} flips={:?} algo={:?} -> received={:?} errors={} terminal={}",
                    st.ev, st.flips, st.algo, received, d.n_errors, d.terminal
                )
            });
            if !d.is_process {
                fail!('run, "A0_audit_kind", step, None, "process returned a non-Process audit");
            }
            if is_market_item {
                n_global.market += 1;
            }
            if is_account_item {
                n_global.account += 1;
            }
            if after.global != n_global {
                fail!('run, "S5_state_not_updated_while_disabled", step, None, "after {:?} (trading {:?}) the global data has seen {:?}; the engine was fed {:?}", st.ev, after.trading, after.global, n_global);
            }

            let enabled_after = after.trading == TradingState::Enabled;
            let is_shutdown = matches!(st.ev, EvB::Shutdown);
            let is_cmd = matches!(
                st.ev,
                EvB::CmdOpen { .. }
                    | EvB::CmdCancel { .. }
                    | EvB::CmdCancelOrders { .. }
                    | EvB::CmdClosePositions { .. }
            );

            // =================================================================================
            // C03 / C19 shared: request accounting
            // =================================================================================
            if matches!(self.prop, PropB::C03 | PropB::C19) {
                // ---- what was generated during this step --------------------------------------
                let cmd_generated: Vec<Req> = match &st.ev {
                    EvB::CmdOpen { ords } => ords
                        .iter()
                        .map(|o| req_open(&w.open_request(sc, *o)))
                        .collect(),
                    EvB::CmdCancel { ords } => ords
                        .iter()
                        .map(|o| req_cancel(&w.cancel_request(sc, *o)))
                        .collect(),
                    EvB::CmdCancelOrders { .. } | EvB::CmdClosePositions { .. } => {
                        d.cmd.as_ref().map(|c| c.all()).unwrap_or_default()
                    }
                    _ => vec![],
                };
                if is_cmd && d.cmd.is_none() {
                    fail!('run, "S2_command_output_missing", step, None, "command {:?} produced no Commanded output", st.ev);
                }
                if !is_cmd && d.cmd.is_some() {
                    fail!('run, "S2_unexpected_command_output", step, None, "non-command event {:?} produced a Commanded output", st.ev);
                }
                let cmd_unrec: Vec<&Req> = cmd_generated
                    .iter()
                    .filter(|r| expected_outcome(&w, r.ex) == Outcome3::Unrecoverable)
                    .collect();
                // the strategy is consulted after the event unless trading is disabled, the event is
                // a shutdown, or a command already failed fatally
                let algo_expected_to_run = enabled_after && !is_shutdown && cmd_unrec.is_empty();
                let (mut algo_approved, mut algo_refused): (Vec<Req>, Vec<Req>) = (vec![], vec![]);
                if let (true, Some(a)) = (algo_expected_to_run, &st.algo) {
                    for o in a.cancels.iter().filter(|o| w.ord_valid(sc, **o)) {
                        let r = req_cancel(&w.cancel_request(sc, *o));
                        if a.refuse_cancels.contains(o) {
                            algo_refused.push(r);
                        } else {
                            algo_approved.push(r);
                        }
                    }
                    for o in a.opens.iter().filter(|o| w.ord_valid(sc, **o)) {
                        let r = req_open(&w.open_request(sc, *o));
                        if a.refuse_opens.contains(o) {
                            algo_refused.push(r);
                        } else {
                            algo_approved.push(r);
                        }
                    }
                }
                if !algo_refused.is_empty() {
                    stats.fault("risk_refusal");
                }
                for r in cmd_generated.iter().chain(algo_approved.iter()) {
                    if r.ex >= w.n_ex {
                        stats.fault("unknown_exchange_index");
                    } else if w.links[r.ex].is_none() {
                        stats.fault("link_missing");
                    }
                }
                let algo_unrec = algo_approved
                    .iter()
                    .filter(|r| expected_outcome(&w, r.ex) == Outcome3::Unrecoverable)
                    .count();

                // ---- S1: deliveries ---------------------------------------------------------
                for e in 0..w.n_ex {
                    let mut exp: Vec<Req> = cmd_generated
                        .iter()
                        .chain(algo_approved.iter())
                        .filter(|r| r.ex == e && expected_outcome(&w, e) == Outcome3::Delivered)
                        .cloned()
                        .collect();
                    exp.sort();
                    let got = sorted(received[e].clone());
                    if exp != got {
                        fail!('run,
                            "S1_delivery",
                            step,
                            None,
                            "link {e} ({:?}): expected deliveries {:?}, link received {:?} (event {:?}, trading enabled after event: {enabled_after})",
                            w.link_mode(e), exp, got, st.ev
                        );
                    }
                }
                // ---- reported sent == delivered, errors classified ---------------------------
                let check_reported = |name: &str, generated: &[Req], rep: &ReportedSet| -> Option<String> {
                    let exp_sent = sorted(
                        generated
                            .iter()
                            .filter(|r| expected_outcome(&w, r.ex) == Outcome3::Delivered)
                            .cloned()
                            .collect(),
                    );
                    let exp_rec = sorted(
                        generated
                            .iter()
                            .filter(|r| expected_outcome(&w, r.ex) == Outcome3::Recoverable)
                            .cloned()
                            .collect(),
                    );
                    let exp_unrec = sorted(
                        generated
                            .iter()
                            .filter(|r| expected_outcome(&w, r.ex) == Outcome3::Unrecoverable)
                            .cloned()
                            .collect(),
                    );
                    if sorted(rep.sent.clone()) != exp_sent {
                        return Some(format!("{name}: reported sent {:?} but requests on healthy links were {:?}", rep.sent, exp_sent));
                    }
                    if sorted(rep.err_recoverable.clone()) != exp_rec {
                        return Some(format!("{name}: reported recoverable failures {:?}, expected (unhealthy links) {:?}", rep.err_recoverable, exp_rec));
                    }
                    if sorted(rep.err_unrecoverable.clone()) != exp_unrec {
                        return Some(format!("{name}: reported fatal failures {:?}, expected (closed / missing link, unknown exchange) {:?}", rep.err_unrecoverable, exp_unrec));
                    }
                    None
                };
                if let Some(c) = &d.cmd {
                    if let Some(msg) = check_reported("command", &cmd_generated, c) {
                        fail!('run, "S2_report_classification", step, None, "{msg}");
                    }
                }
                match &d.algo {
                    Some(a) => {
                        if !algo_expected_to_run {
                            fail!('run, "S5_algo_while_disabled", step, None, "strategy requests reported while trading disabled / after shutdown / after fatal command error: {:?}", a);
                        }
                        if let Some(msg) = check_reported("algo", &algo_approved, a) {
                            fail!('run, "S2_report_classification", step, None, "{msg}");
                        }
                        if sorted(d.algo_refused.clone()) != sorted(algo_refused.clone()) {
                            fail!('run, "S3_refused", step, None, "risk-refused requests reported {:?}, expected {:?}", d.algo_refused, algo_refused);
                        }
                    }
                    None => {
                        let plan_nonempty = !(algo_approved.is_empty() && algo_refused.is_empty());
                        if algo_expected_to_run && plan_nonempty && algo_unrec == 0 {
                            fail!('run,
                                "S6_algo_output_missing",
                                step,
                                None,
                                "trading enabled and the strategy had requests {:?} / refused {:?} on event {:?}, but the audit carries no algo output",
                                algo_approved, algo_refused, st.ev
                            );
                        }
                    }
                }
                // ---- errors / terminal ------------------------------------------------------
                let exp_errors = cmd_unrec.len() + algo_unrec;
                if d.n_errors != exp_errors {
                    fail!('run, "S2_fatal_error_count", step, None, "audit lists {} fatal errors, expected {} (command {} + algo {})", d.n_errors, exp_errors, cmd_unrec.len(), algo_unrec);
                }
                if d.terminal != (is_shutdown || exp_errors > 0) {
                    fail!('run, "S2_terminal", step, None, "tick terminal={} but shutdown={} fatal errors expected={}", d.terminal, is_shutdown, exp_errors);
                }
                if exp_errors > 0 {
                    stats.probe("fatal_error_tick");
                }
                // ---- S4: in-flight marks ----------------------------------------------------
                let all_generated: Vec<(Req, bool)> = cmd_generated
                    .iter()
                    .chain(algo_approved.iter())
                    .map(|r| (r.clone(), expected_outcome(&w, r.ex) == Outcome3::Delivered))
                    .chain(algo_refused.iter().map(|r| (r.clone(), false)))
                    .collect();
                let mut named: BTreeMap<(usize, String), usize> = BTreeMap::new();
                for (r, _) in &all_generated {
                    *named.entry((r.inst, r.cid.clone())).or_default() += 1;
                }
                for (r, delivered) in &all_generated {
                    if named[&(r.inst, r.cid.clone())] > 1 {
                        continue;
                    }
                    let mid_e = entry(&mid, r.inst, &r.cid);
                    let after_e = entry(after, r.inst, &r.cid);
                    if !*delivered {
                        if mid_e != after_e {
                            fail!('run, "S4_failed_request_left_mark", step, None, "request {:?} was refused / failed but the order entry changed: {:?} -> {:?}", r, mid_e, after_e);
                        }
                        continue;
                    }
                    if r.open {
                        let ok = matches!(&after_e, Some(o) if matches!(o.state, ActiveOrderState::OpenInFlight(_)));
                        if !ok {
                            fail!('run, "S4_open_not_in_flight", step, None, "open request {:?} sent but the order is shown as {:?}", r, after_e);
                        }
                    } else {
                        match (&mid_e, &after_e) {
                            (None, None) => {
                                stats.probe("cancel_of_untracked_order");
                            }
                            (Some(m), Some(a)) => {
                                let exp_data = m.state.open_meta().cloned();
                                let ok = matches!(&a.state, ActiveOrderState::CancelInFlight(c) if c.order == exp_data);
                                if !ok {
                                    fail!('run, "S4_cancel_not_in_flight", step, None, "cancel request {:?} sent for tracked order {:?} but afterwards it is {:?}", r, m, a);
                                }
                                in_flight_cancels_seen = true;
                            }
                            _ => {
                                fail!('run, "S4_cancel_changed_tracking", step, None, "cancel request {:?}: entry {:?} -> {:?}", r, mid_e, after_e);
                            }
                        }
                    }
                }
                // orders not named by this step's event or requests keep their entry
                let ev_ord: Option<usize> = match &st.ev {
                    EvB::OrderReport { ord, .. } | EvB::CancelResp { ord, .. } => Some(*ord),
                    _ => None,
                };
                for (o, od) in sc.ords.iter().enumerate() {
                    if od.inst >= w.n_inst() || Some(o) == ev_ord {
                        continue;
                    }
                    let cid = WorldB::cid(o);
                    if named.contains_key(&(od.inst, cid.clone())) {
                        continue;
                    }
                    let b = entry(&before, od.inst, &cid);
                    let a = entry(after, od.inst, &cid);
                    if a != b {
                        fail!('run, "S4_unrelated_order_changed", step, None, "order {cid} not named in this step changed: {:?} -> {:?}", b, a);
                    }
                }
                // ---- S5: still updates state while disabled ---------------------------------
                if !enabled_after {
                    match &st.ev {
                        EvB::Balance { asset, t, total } => {
                            let b = before.assets.asset_index(&AssetIndex(*asset)).balance;
                            let a = after.assets.asset_index(&AssetIndex(*asset)).balance;
                            if b.is_none_or(|b| ms_of(b.time) <= *t) {
                                let ok = a.is_some_and(|a| a.value.total == dec(*total) && ms_of(a.time) == *t);
                                if !ok {
                                    fail!('run, "S5_state_not_updated_while_disabled", step, None, "balance event {:?} not applied while trading disabled: {:?} -> {:?}", st.ev, b, a);
                                }
                                stats.probe("state_update_while_disabled");
                            }
                        }
                        EvB::Fill { inst, .. } => {
                            let b = &before.instruments.instrument_index(&InstrumentIndex(*inst)).position;
                            let a = &after.instruments.instrument_index(&InstrumentIndex(*inst)).position;
                            if a == b {
                                fail!('run, "S5_state_not_updated_while_disabled", step, None, "fill {:?} did not change the position while trading disabled", st.ev);
                            }
                            stats.probe("state_update_while_disabled");
                        }
                        _ => {}
                    }
                    if is_cmd && n_received > 0 {
                        stats.probe("command_actioned_while_disabled");
                    }
                }
                if matches!(st.ev, EvB::Trading { enabled: true }) && !algo_approved.is_empty() {
                    stats.probe("requests_on_enable_event");
                }
                if is_shutdown && (n_received > 0 || d.algo.is_some()) {
                    fail!('run, "S7_requests_on_shutdown", step, None, "shutdown produced requests: {:?}", received);
                }
                let _ = algo_calls_before;
            }

            // =================================================================================
            // C19: filtered commands act on exactly the filtered scope
            // =================================================================================
            if self.prop == PropB::C19 {
                if let EvB::CmdCancelOrders { filter } | EvB::CmdClosePositions { filter } = &st.ev {
                    let scope = w.scope(filter);
                    let is_cancel = matches!(st.ev, EvB::CmdCancelOrders { .. });
                    let reported = d.cmd.as_ref().map(|c| c.all()).unwrap_or_default();
                    if is_cancel {
                        let mut exp: Vec<Req> = Vec::new();
                        for (i, in_scope) in scope.iter().enumerate() {
                            if !in_scope {
                                continue;
                            }
                            let ist = before.instruments.instrument_index(&InstrumentIndex(i));
                            for o in ist.orders.0.values() {
                                let id = match &o.state {
                                    ActiveOrderState::OpenInFlight(_) => None,
                                    ActiveOrderState::Open(open) => Some(open.id.clone()),
                                    ActiveOrderState::CancelInFlight(_) => {
                                        stats.probe("order_already_cancel_in_flight_skipped");
                                        continue;
                                    }
                                };
                                exp.push(req_cancel(&OrderRequestCancel {
                                    key: o.key.clone(),
                                    state: RequestCancel { id },
                                }));
                            }
                        }
                        if d.cmd_kind != Some("cancel") {
                            fail!('run, "F1_cancel_scope", step, None, "cancel-orders command reported output kind {:?}", d.cmd_kind);
                        }
                        if sorted(exp.clone()) != sorted(reported.clone()) {
                            fail!('run,
                                "F1_cancel_scope",
                                step,
                                None,
                                "CancelOrders({:?}): scope instruments {:?}; expected cancel requests {:?}, engine issued {:?}",
                                filter, scope, sorted(exp.clone()), sorted(reported)
                            );
                        }
                        if exp.is_empty() && in_flight_cancels_seen {
                            stats.probe("repeat_cancel_requests_nothing");
                        }
                        if !exp.is_empty() {
                            stats.probe("filtered_cancel_with_targets");
                        }
                    } else {
                        // close positions: one opposite-side, equal-quantity market order per
                        // matching instrument that holds a position and has a price
                        let mut exp: Vec<(usize, usize, String)> = Vec::new();
                        for (i, in_scope) in scope.iter().enumerate() {
                            if !in_scope {
                                continue;
                            }
                            let ist = before.instruments.instrument_index(&InstrumentIndex(i));
                            let (Some(p), Some(price)) = (&ist.position.current, ist.data.price()) else {
                                if ist.position.current.is_some() {
                                    stats.probe("position_without_price_skipped");
                                }
                                continue;
                            };
                            let side = match p.side {
                                Side::Buy => Side::Sell,
                                Side::Sell => Side::Buy,
                            };
                            exp.push((
                                w.inst_ex[i],
                                i,
                                format!("{side:?}|{}|{}", price.normalize(), p.quantity_abs.normalize()),
                            ));
                        }
                        exp.sort();
                        let mut got: Vec<(usize, usize, String)> = Vec::new();
                        let mut cids: Vec<String> = Vec::new();
                        if let Some(EngineAudit::Process(pa)) = Some(&audit) {
                            for out in pa.outputs.iter() {
                                if let EngineOutput::Commanded(ActionOutput::ClosePositions(co)) = out {
                                    if !co.cancels.is_empty() {
                                        fail!('run, "F2_close_scope", step, None, "default close-positions strategy issued cancels: {:?}", co.cancels);
                                    }
                                    let all_opens = co.opens.sent.iter().chain(co.opens.errors.iter().map(|(r, _)| r));
                                    for r in all_opens {
                                        if r.state.kind != barter_execution::order::OrderKind::Market {
                                            fail!('run, "F2_close_scope", step, None, "close order is not a market order: {:?}", r);
                                        }
                                        cids.push(r.key.cid.0.to_string());
                                        got.push((
                                            r.key.exchange.0,
                                            r.key.instrument.0,
                                            format!("{:?}|{}|{}", r.state.side, r.state.price.normalize(), r.state.quantity.normalize()),
                                        ));
                                    }
                                }
                            }
                        }
                        got.sort();
                        if d.cmd_kind != Some("close") || exp != got {
                            fail!('run,
                                "F2_close_scope",
                                step,
                                None,
                                "ClosePositions({:?}): scope {:?}; expected (exchange, instrument, side|price|qty) {:?}, engine issued {:?} (kind {:?})",
                                filter, scope, exp, got, d.cmd_kind
                            );
                        }
                        let mut u = cids.clone();
                        u.sort();
                        u.dedup();
                        if u.len() != cids.len() {
                            fail!('run, "F2_close_scope", step, None, "close orders share a client order id: {:?}", cids);
                        }
                        if !exp.is_empty() {
                            stats.probe("filtered_close_with_targets");
                        }
                    }
                    // untouched: instruments outside the filter byte-identical; positions and
                    // market data of every instrument unchanged by a command
                    for (i, in_scope) in scope.iter().enumerate() {
                        let b = before.instruments.instrument_index(&InstrumentIndex(i));
                        let a = after.instruments.instrument_index(&InstrumentIndex(i));
                        if !in_scope && a != b {
                            // the only legal change: strategy requests generated after the
                            // command (none are planned on command steps for C19)
                            if st.algo.is_none() {
                                fail!('run, "F3_outside_scope_touched", step, None, "instrument {i} is outside {:?} but changed", filter);
                            }
                        }
                        if a.position != b.position || a.data != b.data || a.tear_sheet != b.tear_sheet {
                            fail!('run, "F3_outside_scope_touched", step, None, "command changed position / data of instrument {i}");
                        }
                    }
                    if scope.iter().any(|s| !*s) {
                        stats.probe("filter_excludes_some_instrument");
                    }
                    if before.instruments.0.values().any(|s| {
                        s.orders.0.values().any(|o| matches!(o.state, ActiveOrderState::OpenInFlight(_)))
                    }) {
                        stats.probe("command_during_open_in_flight");
                    }
                    if before.instruments.0.values().any(|s| {
                        s.orders.0.values().any(|o| matches!(o.state, ActiveOrderState::CancelInFlight(_)))
                    }) {
                        stats.probe("command_during_cancel_in_flight");
                    }
                }
            }

            // =================================================================================
            // C14: connectivity model
            // =================================================================================
            if self.prop == PropB::C14 {
                let mut notice: Option<(&'static str, usize)> = None;
                match &st.ev {
                    EvB::MarketReconnecting { ex } => {
                        conn[*ex].0 = false;
                        notice = Some(("market", *ex));
                        stats.fault("market_link_drop");
                    }
                    EvB::AccountReconnecting { ex } => {
                        conn[*ex].1 = false;
                        notice = Some(("account", *ex));
                        stats.fault("account_link_drop");
                    }
                    EvB::Market { inst, .. } => {
                        let e = w.inst_ex[*inst];
                        if !conn[e].0 {
                            stats.probe("market_link_healed");
                        }
                        conn[e].0 = true;
                    }
                    EvB::OrderReport { ord, .. } | EvB::CancelResp { ord, .. } => {
                        let e = sc.ords[*ord].ex;
                        conn[e].1 = true;
                    }
                    EvB::Balance { asset, .. } => {
                        let e = w.asset_ex[*asset];
                        if !conn[e].1 {
                            stats.probe("account_link_healed");
                        }
                        conn[e].1 = true;
                    }
                    EvB::Fill { inst, .. } => {
                        conn[w.inst_ex[*inst]].1 = true;
                    }
                    _ => {}
                }
                let all_ok = conn.iter().all(|(m, a)| *m && *a);
                let global_ok = after.connectivity.global == Health::Healthy;
                if all_ok {
                    stats.probe("global_healthy");
                }
                if global_ok != all_ok {
                    fail!('run,
                        "K1_global_health",
                        step,
                        None,
                        "after {:?}: global connectivity healthy={} but per-link model {:?}",
                        st.ev, global_ok, conn
                    );
                }
                for e in 0..w.n_ex {
                    let cs = after.connectivity.connectivity_index(&ExchangeIndex(e));
                    let got = (cs.market_data == Health::Healthy, cs.account == Health::Healthy);
                    if got != conn[e] {
                        fail!('run,
                            "K2_link_health",
                            step,
                            None,
                            "after {:?}: exchange {e} (market, account) healthy = {:?}, model says {:?}",
                            st.ev, got, conn[e]
                        );
                    }
                }
                let disc_now: Vec<ExchangeId> = w.script.lock().unwrap().disconnects[disc_before..].to_vec();
                match notice {
                    Some((kind, ex)) => {
                        if disc_now != vec![EXS[ex]] {
                            fail!('run, "K3_on_disconnect_calls", step, None, "{kind} disconnect notice for exchange {ex}: on-disconnect strategy invoked for {:?}", disc_now);
                        }
                        if d.disconnects != vec![(kind, EXS[ex])] {
                            fail!('run, "K3_on_disconnect_calls", step, None, "{kind} disconnect notice for exchange {ex}: audit outputs {:?}", d.disconnects);
                        }
                        if conn.iter().filter(|(m, a)| !*m || !*a).count() > 1 {
                            stats.probe("several_exchanges_unhealthy");
                        }
                    }
                    None => {
                        if !disc_now.is_empty() || !d.disconnects.is_empty() {
                            fail!('run, "K3_on_disconnect_calls", step, None, "on-disconnect strategy invoked without a notice on {:?}", st.ev);
                        }
                    }
                }
            }

            // =================================================================================
            // C15: unrealised PnL tracks the instrument's latest price
            // =================================================================================
            if self.prop == PropB::C15 {
                if matches!(st.ev, EvB::Fill { .. } | EvB::Market { .. }) {
                    // the schedule dimension: market stream and fill stream interleaved in one feed
                    stats.fault("interleaving");
                }
                for i in 0..w.n_inst() {
                    let a = after.instruments.instrument_index(&InstrumentIndex(i));
                    let b = before.instruments.instrument_index(&InstrumentIndex(i));
                    let Some(pos) = &a.position.current else { continue };
                    let est = |price: Decimal| {
                        pnl_estimate(
                            pos.side,
                            pos.price_entry_average,
                            pos.quantity_abs,
                            pos.quantity_abs_max,
                            pos.fees_enter.fees,
                            price,
                        )
                    };
                    match &st.ev {
                        EvB::Market { inst, kind, t } if *inst == i => {
                            let priced = matches!(kind, MktB::Trade { .. } | MktB::L1 { .. });
                            let Some(price) = a.data.price() else { continue };
                            if priced {
                                stats.probe("priced_market_event_with_open_position");
                                if a.data == b.data {
                                    stats.probe("late_market_event_ignored_by_data_guard");
                                }
                                let _ = t;
                                if !close_enough(pos.pnl_unrealised, est(price)) {
                                    fail!('run,
                                        "P1_pnl_not_refreshed_by_market_event",
                                        step,
                                        None,
                                        "instrument {i}: after {:?} price()={} position {{side {:?}, entry {}, qty {}, max {}, fees_enter {}}} pnl_unrealised={} but estimate at current price = {}",
                                        st.ev, price, pos.side, pos.price_entry_average, pos.quantity_abs, pos.quantity_abs_max, pos.fees_enter.fees, pos.pnl_unrealised, est(price)
                                    );
                                }
                            } else {
                                // non-priced kinds: either left as is or refreshed
                                let prev = b.position.current.as_ref().map(|p| p.pnl_unrealised);
                                if Some(pos.pnl_unrealised) != prev && !close_enough(pos.pnl_unrealised, est(price)) {
                                    fail!('run, "P3_pnl_changed_without_cause", step, None, "instrument {i}: non-priced market event changed pnl_unrealised {:?} -> {}", prev, pos.pnl_unrealised);
                                }
                            }
                        }
                        EvB::Fill { inst, price, fee_bp, .. } if *inst == i => {
                            let fill_price = dec(*price);
                            let opened = b.position.current.is_none()
                                || b.position.current.as_ref().is_some_and(|p| p.side != pos.side);
                            stats.probe("fill_with_position_after");
                            if !close_enough(pos.pnl_unrealised, est(fill_price)) {
                                let key = if opened
                                    && *fee_bp != 0
                                    && pos.pnl_unrealised.is_zero()
                                    && close_enough(est(fill_price), -pos.fees_enter.fees)
                                {
                                    Some("C15-opening-fill-with-fee-leaves-pnl-unrealised-zero")
                                } else {
                                    None
                                };
                                fail!('run,
                                    "P2_pnl_after_fill",
                                    step,
                                    key,
                                    "instrument {i}: after fill {:?} pnl_unrealised={} but estimate at fill price = {} (position opened by this fill: {opened})",
                                    st.ev, pos.pnl_unrealised, est(fill_price)
                                );
                            }
                        }
                        _ => {
                            let prev = b.position.current.as_ref().map(|p| p.pnl_unrealised);
                            if Some(pos.pnl_unrealised) != prev {
                                fail!('run, "P3_pnl_changed_without_cause", step, None, "instrument {i}: event {:?} for another item changed pnl_unrealised {:?} -> {}", st.ev, prev, pos.pnl_unrealised);
                            }
                        }
                    }
                }
            }

            if d.terminal {
                // a runner stops at the first terminal tick
                break 'run;
            }
        }
        stats.sim_time_ms = engine.clock.now_ms.max(0) as u64;
        Outcome {
            violation,
            stats,
            log_hash: log.hash(),
            signature: log.signature(),
            log: log.lines,
        }
    }

    fn shrink_len(&self, sc: &ScenarioB) -> usize {
        sc.steps.len()
    }
    fn shrink_remove(&self, sc: &ScenarioB, from: usize, to: usize) -> ScenarioB {
        let mut s = sc.clone();
        s.steps.drain(from..to);
        s
    }
    fn simplify(&self, sc: &ScenarioB) -> Vec<ScenarioB> {
        simplify_b(sc)
    }

    fn rule_text(&self) -> String {
        let common = "each run = one PRNG-planned scenario: 1-4 exchanges x 1-3 instruments, per-exchange execution link (healthy / unhealthy / closed / missing), scripted strategy + risk manager, and 10-90 engine events (market, account reports/fills/balances, reconnect notices, trading-state toggles, the four commands, shutdown) with link-state flips placed immediately before events; the real Engine::process handles every event and the returned audit, the link logs and the engine state are checked after every event. distinct = distinct ordering skeleton (event kinds + fault tags, values stripped); non-trivial = at least one fault fired AND at least one rare-branch probe hit in that run. ";
        match self.prop {
            PropB::C03 => format!("{common}Oracle C03: S1 deliveries per link == approved requests on healthy links (exactly once), S2 reported sent / recoverable / fatal classification and fatal-error count + terminal flag, S3 refused never delivered, S4 in-flight marks (sent open => open-in-flight, sent cancel of tracked order => cancel-in-flight with last confirmed data, failed/refused => entry byte-identical, unrelated orders unchanged), S5 nothing strategy-generated while disabled but state still updates and commands still act, S6 requests on the enabling event, S7 none on shutdown."),
            PropB::C14 => format!("{common}Oracle C14: two booleans per exchange from the all-reconnecting start; K1 global healthy iff all links healthy, K2 each exchange's market/account flag, K3 on-disconnect invoked exactly once per notice for that exchange and never otherwise (strategy call log + audit output)."),
            PropB::C15 => format!("{common}Oracle C15: after every priced market event for an instrument with an open position pnl_unrealised == (signed price move x open qty) - fees_enter x qty/max_qty at price() as it is after the event (P1); after a fill the same estimate at the fill price (P2); unchanged by everything else (P3)."),
            PropB::C19 => format!("{common}Oracle C19: independent scope model from the instrument definitions; F1 cancel requests == tracked orders of matching instruments not already cancel-in-flight (cid + exchange id iff known), F2 close requests == one opposite-side equal-quantity market order per matching instrument with position and price, F3 instruments outside the filter byte-identical and no position/data changes, plus S1/S2/S4 of C03 for the command's requests under link faults."),
        }
    }
    fn components_real(&self) -> Vec<&'static str> {
        vec![
            "barter::engine::Engine::{process, action, update_from_*}",
            "barter::engine::action::{send_requests, generate_algo_orders, cancel_orders, close_positions}",
            "barter::engine::execution_tx::MultiExchangeTxMap",
            "barter::engine::state::{EngineState, connectivity, trading, order, position, instrument}",
            "barter::strategy::close_positions::close_open_positions_with_market_orders",
            "barter::engine::audit (ProcessAudit construction)",
        ]
    }
    fn components_stub(&self) -> Vec<&'static str> {
        vec![
            "execution links (SimTx: healthy / unhealthy / closed / missing)",
            "strategy (scripted AlgoStrategy, counting OnDisconnect / OnTradingDisabled)",
            "risk manager (scripted refusals)",
            "engine clock (SimClock)",
            "event feed (markets, exchange reports, commands)",
        ]
    }
    fn fault_kinds(&self) -> Vec<&'static str> {
        match self.prop {
            PropB::C14 => vec!["market_link_drop", "account_link_drop", "links_are_reconnecting_streams", "state_persisted_and_restored"],
            PropB::C15 => vec!["interleaving"],
            _ => vec!["link_unhealthy", "link_closed", "link_healed", "risk_refusal", "link_missing", "unknown_exchange_index"],
        }
    }
    fn probe_kinds(&self) -> Vec<&'static str> {
        match self.prop {
            PropB::C03 => vec![
                "fatal_error_tick",
                "cancel_of_untracked_order",
                "state_update_while_disabled",
                "command_actioned_while_disabled",
                "requests_on_enable_event",
            ],
            PropB::C14 => vec![
                "global_healthy",
                "market_link_healed",
                "account_link_healed",
                "several_exchanges_unhealthy",
                "notices_produced_by_reconnect_combinators",
                "dataset_begins_or_ends_with_disconnect_notice",
            ],
            PropB::C15 => vec![
                "priced_market_event_with_open_position",
                "late_market_event_ignored_by_data_guard",
                "fill_with_position_after",
            ],
            PropB::C19 => vec![
                "filtered_cancel_with_targets",
                "filtered_close_with_targets",
                "repeat_cancel_requests_nothing",
                "order_already_cancel_in_flight_skipped",
                "position_without_price_skipped",
                "filter_excludes_some_instrument",
                "command_during_open_in_flight",
                "command_during_cancel_in_flight",
            ],
        }
    }
    fn assumptions(&self) -> Vec<String> {
        vec![
            "client order ids are unique per order within a run".into(),
            "when strategy-generated requests hit a fatal link error the engine reports only the errors (no per-request output); the oracle then checks deliveries, marks and the error count, not the missing output".into(),
            "pnl comparison tolerance 1e-9 (same decimal type, independent formula)".into(),
        ]
    }
}

pub fn simplify_b(sc: &ScenarioB) -> Vec<ScenarioB> {
    let mut out = Vec::new();
    // drop link flips / algo plans per step
    for (k, st) in sc.steps.iter().enumerate() {
        if !st.flips.is_empty() {
            let mut s = sc.clone();
            s.steps[k].flips.clear();
            out.push(s);
        }
        if st.algo.is_some() {
            let mut s = sc.clone();
            s.steps[k].algo = None;
            out.push(s);
        }
        if let Some(a) = &st.algo {
            if a.opens.len() + a.cancels.len() > 1 {
                for j in 0..a.opens.len() {
                    let mut s = sc.clone();
                    if let Some(a) = &mut s.steps[k].algo {
                        let o = a.opens.remove(j);
                        a.refuse_opens.retain(|x| *x != o);
                    }
                    out.push(s);
                }
                for j in 0..a.cancels.len() {
                    let mut s = sc.clone();
                    if let Some(a) = &mut s.steps[k].algo {
                        let o = a.cancels.remove(j);
                        a.refuse_cancels.retain(|x| *x != o);
                    }
                    out.push(s);
                }
            }
        }
        match &st.ev {
            EvB::CmdOpen { ords } | EvB::CmdCancel { ords } if ords.len() > 1 => {
                for j in 0..ords.len() {
                    let mut s = sc.clone();
                    match &mut s.steps[k].ev {
                        EvB::CmdOpen { ords } | EvB::CmdCancel { ords } => {
                            ords.remove(j);
                        }
                        _ => {}
                    }
                    out.push(s);
                }
            }
            _ => {}
        }
    }
    if sc.init_bal.iter().any(Option::is_some) {
        let mut s = sc.clone();
        s.init_bal.iter_mut().for_each(|b| *b = None);
        out.push(s);
    }
    // all links healthy & present
    if sc.topo.links.iter().any(|l| *l != Some(LinkMode::Healthy)) {
        let mut s = sc.clone();
        s.topo.links.iter_mut().for_each(|l| *l = Some(LinkMode::Healthy));
        out.push(s);
    }
    out
}
