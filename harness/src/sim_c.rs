//! Sim C — real `ExecutionManager` tasks on a paused, seeded current-thread tokio runtime behind a
//! scripted `ExecutionClient`.
//!  * C07: every request answered exactly once (client response or timeout), under virtual time.
//!  * C04: engine index <-> exchange name translation across N concurrently running managers.

use crate::{
    kit::{ExecCtx, Log, Outcome, RunStats, Sim, Violation, report, rng::Rng},
    sim_client::*,
    world::*,
};
use barter::{
    EngineEvent,
    execution::builder::ExecutionBuilder,
    engine::{
        Engine, Processor,
        clock::EngineClock,
        command::Command,
        execution_tx::MultiExchangeTxMap,
        state::trading::TradingState,
    },
    execution::{AccountStreamEvent, manager::ExecutionManager, request::ExecutionRequest},
    risk::DefaultRiskManager,
    strategy::DefaultStrategy,
};
use barter_data::{
    event::DataKind,
    streams::reconnect::stream::{ReconnectingStream, ReconnectionBackoffPolicy},
};
use barter_execution::{
    AccountEventKind, UnindexedAccountEvent, UnindexedAccountSnapshot,
    balance::{AssetBalance, Balance},
    error::{ConnectivityError, OrderError},
    indexer::AccountEventIndexer,
    map::generate_execution_instrument_map,
    order::{
        Order, OrderKey, OrderKind, TimeInForce,
        id::{ClientOrderId, OrderId},
        state::{ActiveOrderState, InactiveOrderState, Open, OrderState},
    },
    trade::{AssetFees, Trade, TradeId},
};
use barter_instrument::{
    Side,
    asset::AssetIndex,
    exchange::{ExchangeId, ExchangeIndex},
    index::IndexedInstruments,
    instrument::{Instrument, InstrumentIndex},
};
use barter_integration::{
    channel::{Tx, UnboundedTx, mpsc_unbounded},
    collection::one_or_many::OneOrMany,
    snapshot::Snapshot,
};
use serde::{Deserialize, Serialize};
use std::{collections::HashMap, sync::Arc, time::Duration};

// ================================================================================================
// C07
// ================================================================================================

#[derive(Clone, Debug, Serialize, Deserialize)]
pub struct ReqC7 {
    pub at_ms: u64,
    pub open: bool,
    pub inst: usize,
    pub behav: Behav,
    /// re-use the client order id of an earlier request of the same kind on another instrument
    /// (an order is identified by exchange, instrument, strategy *and* client order id)
    #[serde(default)]
    pub twin_of: Option<usize>,
    /// the open request carries a negative quantity (a sell encoded as a negative amount)
    #[serde(default)]
    pub neg_qty: bool,
}

#[derive(Clone, Debug, Serialize, Deserialize)]
pub struct ScenarioC7 {
    pub timeout_ms: u64,
    pub tokio_seed: u64,
    pub n_inst: usize,
    pub reqs: Vec<ReqC7>,
    /// drop the response receiver at this virtual instant
    pub close_rx_at: Option<u64>,
    /// true: end with ExecutionRequest::Shutdown, false: close the request channel
    pub explicit_shutdown: bool,
    /// clock jump / stalled node: at virtual instant `.0` the clock leaps forward by `.1` ms, so
    /// everything due inside the window becomes ready at once
    #[serde(default)]
    pub jump: Option<(u64, u64)>,
    /// the manager talks to the real `MockExecution` client; the mock exchange behind its request
    /// channel is scripted by the simulator (same per-request behaviours)
    #[serde(default)]
    pub mock_client: bool,
    /// mock client only: the exchange task goes away at this instant (its request channel closes and
    /// every answer still owed is dropped): the client must report "exchange offline" for those
    #[serde(default)]
    pub exchange_gone_at: Option<u64>,
    /// one more instrument: a perpetual margined in an asset that is neither its base nor its quote
    /// (and nobody else's); the exchange rejects opens for it naming that asset
    #[serde(default)]
    pub margin_perp: bool,
}

pub struct SimC7;

impl ScenarioC7 {
    fn with_requests_for_the_margin_perp(mut self, rng: &mut Rng) -> Self {
        if self.margin_perp {
            let n = self.n_inst.clamp(1, 3);
            for r in self.reqs.iter_mut() {
                if rng.chance(1, 3) {
                    r.inst = n;
                }
            }
        }
        self
    }
}

const MARGIN_PERP: (&str, &str, &str) = ("eth", "usd", "xbt");

fn c7_instruments(n: usize, margin_perp: bool) -> IndexedInstruments {
    let pairs = [("btc", "usdt"), ("eth", "usdt"), ("sol", "usdt")];
    let mut v = pairs.iter().take(n.clamp(1, 3)).map(|(b, q)| spot(EXS[0], b, q)).collect::<Vec<_>>();
    if margin_perp {
        v.push(crate::world::perp_settled(EXS[0], MARGIN_PERP.0, MARGIN_PERP.1, MARGIN_PERP.2));
    }
    IndexedInstruments::new(v)
}

#[derive(Debug, Clone)]
struct Got {
    at_ms: u64,
    seq: usize,
    ev: AccountStreamEvent,
}

impl Sim for SimC7 {
    type Scenario = ScenarioC7;

    fn name(&self) -> &'static str {
        "C:execution-manager(virtual time)"
    }
    fn property(&self) -> &'static str {
        "C07"
    }
    fn sub_batches(&self) -> Vec<&'static str> {
        vec![
            "responsive_client(no timeouts)",
            "delays_around_timeout_and_silent_client",
        ]
    }
    fn default_runs(&self) -> (u64, u64) {
        (600_000, 20_000_000)
    }

    fn plan(&self, rng: &mut Rng, sub: usize) -> ScenarioC7 {
        let timeout_ms = *rng.pick(&[1u64, 2, 5, 50, 1000, 60_000]);
        let n_inst = 1 + rng.usize(3);
        let n = match rng.below(10) {
            0 => 64,
            1..=3 => 10 + rng.usize(30),
            _ => 1 + rng.usize(10),
        };
        let mut t = 0u64;
        let mut reqs = Vec::new();
        for _ in 0..n {
            // bursts (same instant) and singles
            if !rng.chance(1, 2) {
                t += *rng.pick(&[1u64, 1, 2, 5, timeout_ms.min(500), timeout_ms.min(500) + 1]);
            }
            let delay_ms = if sub == 0 {
                Some(if timeout_ms > 1 { rng.below(timeout_ms.min(20)) } else { 0 })
            } else {
                match rng.below(10) {
                    0 => None,
                    1 => Some(timeout_ms),
                    2 => Some(timeout_ms + 1),
                    3 => Some(timeout_ms.saturating_sub(1)),
                    4 => Some(timeout_ms + rng.range(1, 50) as u64),
                    5 => Some(0),
                    _ => Some(rng.below(timeout_ms.min(100) + 1)),
                }
            };
            reqs.push(ReqC7 {
                twin_of: if sub == 1 && n_inst > 1 && rng.chance(1, 6) { Some(rng.usize(64)) } else { None },
                neg_qty: sub == 1 && rng.chance(1, 10),
                at_ms: t,
                open: rng.chance(3, 5),
                inst: rng.usize(n_inst),
                behav: Behav {
                    delay_ms,
                    resp: *rng.pick(&[
                        Resp::OkOpen,
                        Resp::OkOpen,
                        Resp::OkFull,
                        Resp::Rejected,
                        Resp::Connectivity,
                    ]),
                },
            });
        }
        let tokio_seed = rng.next_u64();
        ScenarioC7 {
            timeout_ms,
            tokio_seed,
            n_inst,
            reqs,
            close_rx_at: if sub == 1 && rng.chance(1, 12) {
                Some(rng.below(t + timeout_ms + 1))
            } else {
                None
            },
            explicit_shutdown: rng.chance(1, 2),
            jump: if sub == 1 && rng.chance(1, 5) {
                Some((rng.below(t + timeout_ms + 1), *rng.pick(&[1u64, timeout_ms / 2 + 1, timeout_ms, 2 * timeout_ms, 1000])))
            } else {
                None
            },
            mock_client: rng.chance(1, 4),
            exchange_gone_at: if sub == 1 && rng.chance(1, 3) { Some(rng.below(t + timeout_ms + 2)) } else { None },
            margin_perp: rng.chance(1, 4),
        }
        .with_requests_for_the_margin_perp(rng)
    }

    fn execute(&self, sc: &ScenarioC7, ctx: &ExecCtx<'_>) -> Outcome {
        let pid = "C07";
        let mut log = Log::new(ctx.keep_log);
        let mut stats = RunStats::default();
        let mut violation: Option<Violation> = None;
        let instruments = c7_instruments(sc.n_inst, sc.margin_perp);
        let _margin = crate::sim_client::set_margin_reject(
            sc.margin_perp.then(|| (format!("{}_{}_perp", MARGIN_PERP.0, MARGIN_PERP.1), MARGIN_PERP.2.to_string())),
        );
        let n_inst = instruments.instruments().len();
        let reqs0: Vec<&ReqC7> = sc.reqs.iter().filter(|r| r.inst < n_inst).collect();
        // effective requests: a twin shares the client order id (and therefore the scripted client
        // behaviour, which is keyed by it) of an earlier, non-twin request on another instrument
        let mut cids: Vec<String> = Vec::new();
        let mut reqs_eff: Vec<ReqC7> = Vec::new();
        for (k, r) in reqs0.iter().enumerate() {
            let mut e = (*r).clone();
            // at most one twin per source, and the source is not a twin itself
            let src = r.twin_of.filter(|_| k > 0).map(|t| t % k).filter(|j| {
                let id = format!("r{j}");
                reqs0[*j].inst != r.inst && reqs0[*j].open == r.open && cids[*j] == id && cids.iter().filter(|c| **c == id).count() == 1
            });
            match src {
                Some(j) => {
                    e.behav = reqs_eff[j].behav;
                    cids.push(format!("r{j}"));
                }
                None => cids.push(format!("r{k}")),
            }
            reqs_eff.push(e);
        }
        let reqs: Vec<&ReqC7> = reqs_eff.iter().collect();
        let inst_name = |i: usize| instruments.instruments()[i].value.name_exchange.name().to_string();
        let timeout = sc.timeout_ms;
        let last_send = reqs.iter().map(|r| r.at_ms).max().unwrap_or(0);

        let rt = paused_runtime(sc.tokio_seed);
        // (with the mock client the instant the manager hands a request over is not observable - only
        // the instant the scripted exchange takes it off its channel is - so no clock leap there)
        let jump = if sc.close_rx_at.is_some() || sc.mock_client { None } else { sc.jump };
        let gone_at = if sc.mock_client { sc.exchange_gone_at } else { None };
        let (got, received, manager_result, end_ms, sent_at): (Vec<Got>, Vec<RecvReq>, Result<(), String>, u64, Vec<u64>) =
            rt.block_on(async {
                let start = tokio::time::Instant::now();
                let behav: HashMap<String, Behav> = reqs
                    .iter()
                    .enumerate()
                    .map(|(k, r)| (cids[k].clone(), r.behav))
                    .collect();
                let map = generate_execution_instrument_map(&instruments, EXS[0]).expect("map");
                let indexer = AccountEventIndexer::new(Arc::new(map));
                let (req_tx, req_rx) = mpsc_unbounded::<ExecutionRequest>();
                let (resp_tx, mut resp_rx) = mpsc_unbounded::<AccountStreamEvent>();
                // what the exchange side saw, whichever client is in between
                let received_log: Arc<std::sync::Mutex<Vec<RecvReq>>> = Arc::new(std::sync::Mutex::new(Vec::new()));
                let mut sim_client: Option<SimClient> = None;
                let manager_handle = if sc.mock_client {
                    use barter_execution::{
                        client::mock::{MockExecution, MockExecutionClientConfig},
                        exchange::mock::request::{MockExchangeRequest, MockExchangeRequestKind},
                    };
                    fn mock_clock() -> chrono::DateTime<chrono::Utc> {
                        ts(0)
                    }
                    let (mx_tx, mut mx_rx) = tokio::sync::mpsc::unbounded_channel::<MockExchangeRequest>();
                    let (_ev_tx, ev_rx) = tokio::sync::broadcast::channel::<UnindexedAccountEvent>(16);
                    let client = <MockExecution<fn() -> chrono::DateTime<chrono::Utc>> as barter_execution::client::ExecutionClient>::new(MockExecutionClientConfig {
                        mocked_exchange: EXS[0],
                        clock: mock_clock as fn() -> chrono::DateTime<chrono::Utc>,
                        request_tx: mx_tx,
                        event_rx: ev_rx,
                    });
                    // the scripted mock exchange: answers every request after its scripted delay, never
                    // for "silent" ones, and goes away at `exchange_gone_at`
                    let log = received_log.clone();
                    let gone_at = sc.exchange_gone_at;
                    tokio::spawn(async move {
                        let mut owed: Vec<tokio::task::JoinHandle<()>> = Vec::new();
                        loop {
                            let next = match gone_at {
                                Some(g) => match tokio::time::timeout_at(start + Duration::from_millis(g), mx_rx.recv()).await {
                                    Ok(x) => x,
                                    Err(_) => break,
                                },
                                None => mx_rx.recv().await,
                            };
                            let Some(req) = next else { break };
                            let now_ms = start.elapsed().as_millis() as u64;
                            match req.kind {
                                MockExchangeRequestKind::OpenOrder { response_tx, request } => {
                                    let cid = request.key.cid.0.to_string();
                                    log.lock().unwrap().push(RecvReq { at_ms: now_ms, open: true, exchange: request.key.exchange, instrument: request.key.instrument.name().to_string(), cid: cid.clone() });
                                    let b = behav.get(&cid).copied().unwrap_or(Behav { delay_ms: Some(0), resp: Resp::OkOpen });
                                    owed.push(tokio::spawn(async move {
                                        wait_behav(b).await;
                                        let _ = response_tx.send(open_response(request.key.clone(), &request.state, b, start.elapsed().as_millis() as u64));
                                    }));
                                }
                                MockExchangeRequestKind::CancelOrder { response_tx, request } => {
                                    let cid = request.key.cid.0.to_string();
                                    log.lock().unwrap().push(RecvReq { at_ms: now_ms, open: false, exchange: request.key.exchange, instrument: request.key.instrument.name().to_string(), cid: cid.clone() });
                                    let b = behav.get(&format!("x:{cid}")).or(behav.get(&cid)).copied().unwrap_or(Behav { delay_ms: Some(0), resp: Resp::OkOpen });
                                    owed.push(tokio::spawn(async move {
                                        wait_behav(b).await;
                                        let _ = response_tx.send(cancel_response(request.key.clone(), b, start.elapsed().as_millis() as u64));
                                    }));
                                }
                                _ => {}
                            }
                        }
                        // gone: the request channel closes and every answer still owed is dropped
                        drop(mx_rx);
                        for h in owed {
                            h.abort();
                        }
                    });
                    tokio::spawn(ExecutionManager::new(req_rx.into_stream(), Duration::from_millis(timeout), resp_tx, Arc::new(client), indexer).run())
                } else {
                    let (client, _acct_tx) = SimClient::new_client(
                        EXS[0],
                        behav,
                        UnindexedAccountSnapshot {
                            exchange: EXS[0],
                            balances: vec![],
                            instruments: vec![],
                        },
                    );
                    sim_client = Some(client.clone());
                    tokio::spawn(ExecutionManager::new(req_rx.into_stream(), Duration::from_millis(timeout), resp_tx, Arc::new(client), indexer).run())
                };
                let read_received = || -> Vec<RecvReq> {
                    match &sim_client {
                        Some(client) => client.0.received.lock().unwrap().clone(),
                        None => received_log.lock().unwrap().clone(),
                    }
                };

                // collector: stamps every event with virtual time + global sequence number
                let close_at = sc.close_rx_at;
                let collector = tokio::spawn(async move {
                    let mut got: Vec<Got> = Vec::new();
                    loop {
                        let next = match close_at {
                            Some(c) => {
                                let deadline = start + Duration::from_millis(c);
                                match tokio::time::timeout_at(deadline, resp_rx.rx.recv()).await {
                                    Ok(x) => x,
                                    Err(_) => break, // receiver dropped here
                                }
                            }
                            None => resp_rx.rx.recv().await,
                        };
                        let Some(ev) = next else { break };
                        got.push(Got {
                            at_ms: start.elapsed().as_millis() as u64,
                            seq: got.len(),
                            ev,
                        });
                    }
                    got
                });

                // fault: the clock leaps forward (stalled node / clock jump)
                if let Some((at, by)) = jump {
                    tokio::spawn(async move {
                        tokio::time::sleep_until(start + Duration::from_millis(at)).await;
                        tokio::time::advance(Duration::from_millis(by)).await;
                    });
                }
                // driver: pushes the requests at their virtual instants
                let mut sent_at: Vec<u64> = Vec::new();
                for (k, r) in reqs.iter().enumerate() {
                    tokio::time::sleep_until(start + Duration::from_millis(r.at_ms)).await;
                    sent_at.push(start.elapsed().as_millis() as u64);
                    let key = okey(0, r.inst, &cids[k]);
                    let req = if r.open {
                        ExecutionRequest::Open(request_open(key, true, dec(100), dec(if r.neg_qty { -2 } else { 2 }), OrderKind::Limit))
                    } else {
                        ExecutionRequest::Cancel(request_cancel(key, None))
                    };
                    if req_tx.send(req).is_err() {
                        break;
                    }
                }
                // every outstanding request must be resolved by (last send + timeout)
                let last_actual = sent_at.iter().copied().max().unwrap_or(0).max(last_send);
                tokio::time::sleep_until(start + Duration::from_millis(last_actual + timeout + 3)).await;
                // a leap may land between the send and the manager picking the request up; the
                // timeout runs from the pick-up (= the instant the client is called)
                let last_recv = read_received().iter().map(|x| x.at_ms).max().unwrap_or(0);
                tokio::time::sleep_until(start + Duration::from_millis(last_recv + timeout + 3)).await;
                if jump.is_some() {
                    // the waits above may themselves have been swallowed by the leap: let the
                    // manager run at the landing instant before shutting it down
                    tokio::time::sleep(Duration::from_millis(3)).await;
                }
                if sc.explicit_shutdown {
                    let _ = req_tx.send(ExecutionRequest::Shutdown);
                } else {
                    drop(req_tx);
                }
                let joined = tokio::time::timeout(Duration::from_secs(3600), manager_handle).await;
                let manager_result = match joined {
                    Err(_) => Err("manager did not stop within 1 h (virtual) after shutdown".to_string()),
                    Ok(Err(e)) if e.is_panic() => Err("manager task panicked".to_string()),
                    Ok(Err(e)) => Err(format!("manager task failed: {e}")),
                    Ok(Ok(())) => Ok(()),
                };
                let got = collector.await.unwrap_or_default();
                let received = read_received();
                (got, received, manager_result, start.elapsed().as_millis() as u64, sent_at)
            });
        drop(rt);
        stats.sim_time_ms = end_ms.min(last_send + timeout + 10);
        stats.steps = reqs.len() as u64;

        macro_rules! fail {
            ($l:lifetime, $rule:expr, $step:expr, $($arg:tt)*) => {{
                violation = report(ctx, &mut stats, pid, $rule, $step, format!($($arg)*), None);
                if violation.is_some() {
                    break $l;
                }
            }};
        }

        #[allow(clippy::never_loop)]
        'chk: loop {
            for g in &got {
                log.line(|| format!("t={} #{}: {:?}", g.at_ms, g.seq, g.ev));
            }
            if let Err(e) = &manager_result {
                fail!('chk, "E0_manager_stop", 0, "{e}");
            }
            if sc.close_rx_at.is_some() {
                stats.fault("response_receiver_dropped");
            }
            if jump.is_some() {
                stats.fault("clock_jump");
            }
            if sc.mock_client {
                stats.probe("manager_over_real_mock_client");
            }
            if gone_at.is_some() {
                stats.fault("mock_exchange_gone");
            }
            if reqs.len() >= 64 {
                stats.probe("64_outstanding");
            }
            // requests reach the client exactly once each
            for (k, r) in reqs.iter().enumerate() {
                let cid = cids[k].clone();
                if gone_at.is_some() {
                    // (what reaches a vanishing exchange is not pinned down: judged by E2 below)
                    continue;
                }
                let n = received.iter().filter(|x| x.cid == cid && x.instrument == inst_name(r.inst)).count();
                if cids.iter().filter(|c| **c == cid).count() > 1 {
                    stats.probe("client_order_id_shared_by_two_instruments");
                }
                let closed_before = sc.close_rx_at.is_some_and(|c| c <= r.at_ms + timeout);
                if n != 1 && !closed_before {
                    fail!('chk, "E1_request_not_forwarded_once", k, "request {cid} reached the client {n} times");
                }
            }
            for (k, r) in reqs.iter().enumerate() {
                let cid = cids[k].clone();
                log.sig(if r.open { "o" } else { "c" });
                log.sig(match r.behav.delay_ms {
                    None => "never",
                    Some(d) if d < timeout => "early",
                    Some(d) if d == timeout => "tie",
                    _ => "late",
                });
                match r.behav.delay_ms {
                    None => {
                        stats.fault("client_never_responds");
                        stats.probe("never_responding_client");
                    }
                    Some(d) if d > timeout => stats.fault("response_after_timeout"),
                    Some(d) if d == timeout => {
                        stats.fault("response_at_timeout_instant");
                        stats.probe("response_at_timeout_instant");
                    }
                    Some(_) => {}
                }
                if matches!(r.behav.resp, Resp::Rejected | Resp::Connectivity) {
                    stats.fault("client_error_response");
                }
                let mine: Vec<&Got> = got
                    .iter()
                    .filter(|g| match &g.ev {
                        AccountStreamEvent::Item(ev) => match &ev.kind {
                            AccountEventKind::OrderSnapshot(s) => s.0.key.cid.0.as_str() == cid && s.0.key.instrument == InstrumentIndex(r.inst),
                            AccountEventKind::OrderCancelled(c) => c.key.cid.0.as_str() == cid && c.key.instrument == InstrumentIndex(r.inst),
                            _ => false,
                        },
                        _ => false,
                    })
                    .collect();
                // when must it be resolved, and how (measured from the instant it was actually sent)
                let s_at = received
                    .iter()
                    .find(|x| x.cid == cid && x.instrument == inst_name(r.inst))
                    .map(|x| x.at_ms)
                    .unwrap_or_else(|| sent_at.get(k).copied().unwrap_or(r.at_ms));
                let (mut resolve_at, mut by_client): (u64, Option<bool>) = match r.behav.delay_ms {
                    Some(d) if d < timeout => (s_at + d, Some(true)),
                    Some(d) if d == timeout => (s_at + timeout, None),
                    _ => (s_at + timeout, Some(false)),
                };
                let mut resolve_alt: Option<u64> = None;
                if let Some((j, by)) = jump {
                    let in_window = |t: u64| t > j && t <= j + by;
                    // a late response that became ready inside the same leap as the deadline: the
                    // statement cannot order them, either outcome is accepted
                    if let (Some(false), Some(d)) = (by_client, r.behav.delay_ms) {
                        if in_window(s_at + timeout) && s_at + d <= j + by {
                            by_client = None;
                        }
                    }
                    if in_window(resolve_at) {
                        resolve_at = j + by;
                        stats.probe("resolution_inside_clock_jump");
                    } else if resolve_at == j {
                        // exactly at the leap instant: before or after the leap
                        resolve_alt = Some(j + by);
                    }
                }
                if let Some(c) = sc.close_rx_at {
                    if resolve_at >= c {
                        // the consumer went away before this request resolves: nothing observable
                        continue;
                    }
                }
                if mine.len() != 1 {
                    fail!(
                        'chk,
                        "E2_exactly_one_event",
                        k,
                        "request {cid} ({}; client delay {:?} ms, timeout {timeout} ms, sent at {} ms): {} events {:?}",
                        if r.open { "open" } else { "cancel" }, r.behav.delay_ms, r.at_ms, mine.len(),
                        mine.iter().map(|g| g.at_ms).collect::<Vec<_>>()
                    );
                    continue;
                }
                let g = mine[0];
                // the exchange behind the mock client went away before this request would have been
                // resolved: exactly one event, rightly attributed, is all the statement pins down
                let affected = gone_at.is_some_and(|x| resolve_at >= x || s_at >= x);
                if affected {
                    stats.probe("request_outstanding_when_exchange_went_away");
                }
                if !affected && g.at_ms != resolve_at && Some(g.at_ms) != resolve_alt {
                    fail!('chk, "E3_event_time", k, "request {cid} sent at {} ms (delay {:?}, timeout {timeout}): event at {} ms, expected {resolve_at} ms", r.at_ms, r.behav.delay_ms, g.at_ms);
                }
                let AccountStreamEvent::Item(ev) = &g.ev else { continue };
                if ev.exchange != ExchangeIndex(0) {
                    fail!('chk, "E4_attribution", k, "event for {cid} attributed to exchange {:?}", ev.exchange);
                }
                // classify what we got
                let (is_timeout, kind_ok, inst_ok, content_ok): (bool, bool, bool, bool) = match &ev.kind {
                    AccountEventKind::OrderSnapshot(Snapshot(o)) => {
                        let is_timeout = matches!(
                            &o.state,
                            OrderState::Inactive(InactiveOrderState::OpenFailed(OrderError::Connectivity(ConnectivityError::Timeout)))
                        );
                        let content_ok = if is_timeout {
                            true
                        } else {
                            match (r.behav.resp, &o.state) {
                                (Resp::OkOpen, OrderState::Active(ActiveOrderState::Open(op))) => op.filled_quantity.is_zero(),
                                (Resp::OkFull, OrderState::Inactive(InactiveOrderState::FullyFilled)) => true,
                                (Resp::Rejected, OrderState::Inactive(InactiveOrderState::OpenFailed(OrderError::Rejected(_)))) => true,
                                (Resp::Connectivity, OrderState::Inactive(InactiveOrderState::OpenFailed(OrderError::Connectivity(ConnectivityError::Socket(_))))) => true,
                                _ => false,
                            }
                        };
                        (is_timeout, r.open, o.key.instrument == InstrumentIndex(r.inst) && o.key.exchange == ExchangeIndex(0), content_ok)
                    }
                    AccountEventKind::OrderCancelled(c) => {
                        let is_timeout = matches!(&c.state, Err(OrderError::Connectivity(ConnectivityError::Timeout)));
                        let content_ok = if is_timeout {
                            true
                        } else {
                            match (r.behav.resp, &c.state) {
                                (Resp::OkOpen | Resp::OkFull, Ok(_)) => true,
                                (Resp::Rejected, Err(OrderError::Rejected(_))) => true,
                                (Resp::Connectivity, Err(OrderError::Connectivity(ConnectivityError::Socket(_)))) => true,
                                _ => false,
                            }
                        };
                        (is_timeout, !r.open, c.key.instrument == InstrumentIndex(r.inst) && c.key.exchange == ExchangeIndex(0), content_ok)
                    }
                    _ => (false, false, false, false),
                };
                if !kind_ok || !inst_ok {
                    fail!('chk, "E4_attribution", k, "request {cid} ({} on instrument {}): answered by {:?}", if r.open { "open" } else { "cancel" }, r.inst, ev.kind);
                }
                if affected {
                    continue;
                }
                match by_client {
                    Some(true) if is_timeout => {
                        fail!('chk, "E5_timeout_instead_of_response", k, "request {cid}: client answered after {:?} ms < timeout {timeout} ms but a timeout failure was reported", r.behav.delay_ms);
                    }
                    Some(false) if !is_timeout => {
                        fail!('chk, "E5_response_instead_of_timeout", k, "request {cid}: client delay {:?} exceeds timeout {timeout} ms but the event is not a timeout failure: {:?}", r.behav.delay_ms, ev.kind);
                    }
                    _ => {}
                }
                if !content_ok {
                    fail!('chk, "E6_response_content", k, "request {cid}: client behaviour {:?} but event {:?}", r.behav.resp, ev.kind);
                }
            }
            // no event that belongs to no request
            if got.len() > reqs.len() {
                fail!('chk, "E2_exactly_one_event", 0, "{} events for {} requests", got.len(), reqs.len());
            }
            // tie probe: both queues ready at the same instant
            let mut times: Vec<u64> = got.iter().map(|g| g.at_ms).collect();
            times.sort();
            if times.windows(2).any(|w| w[0] == w[1]) {
                stats.probe("several_responses_same_instant");
            }
            break;
        }
        Outcome {
            violation,
            stats,
            log_hash: log.hash(),
            signature: log.signature(),
            log: log.lines,
        }
    }

    fn shrink_len(&self, sc: &ScenarioC7) -> usize {
        sc.reqs.len()
    }
    fn shrink_remove(&self, sc: &ScenarioC7, from: usize, to: usize) -> ScenarioC7 {
        let mut s = sc.clone();
        s.reqs.drain(from..to);
        s
    }
    fn simplify(&self, sc: &ScenarioC7) -> Vec<ScenarioC7> {
        let mut out = Vec::new();
        if sc.close_rx_at.is_some() {
            let mut s = sc.clone();
            s.close_rx_at = None;
            out.push(s);
        }
        if sc.jump.is_some() {
            let mut s = sc.clone();
            s.jump = None;
            out.push(s);
        }
        if sc.reqs.iter().any(|r| r.at_ms != 0) {
            let mut s = sc.clone();
            s.reqs.iter_mut().for_each(|r| r.at_ms = 0);
            out.push(s);
        }
        for (k, r) in sc.reqs.iter().enumerate() {
            if r.behav.resp != Resp::OkOpen {
                let mut s = sc.clone();
                s.reqs[k].behav.resp = Resp::OkOpen;
                out.push(s);
            }
            if r.inst != 0 {
                let mut s = sc.clone();
                s.reqs[k].inst = 0;
                out.push(s);
            }
        }
        out
    }

    fn rule_text(&self) -> String {
        "each run = one PRNG-planned batch of 1-64 open/cancel requests pushed at seeded virtual instants (bursts and singles) into a real ExecutionManager::run task on a paused current-thread tokio runtime (select! tie-breaks from the scenario's tokio seed); a scripted ExecutionClient answers each request Ok / Ok-fully-filled / rejected / connectivity error after a delay in {0 .. timeout-1, timeout, timeout+1 .., never}, timeout in {1 ms .. 60 s}; optionally the response receiver is dropped mid-run. Oracle over the recorded history (virtual timestamp + global sequence number per event): each request reaches the client once (E1) and yields exactly one account event (E2) at send+delay or send+timeout exactly (E3), for the right exchange / instrument / order id and kind (E4), the client's own answer iff delay < timeout, a timeout failure iff delay > timeout, either on a tie (E5), with the documented content mapping (E6); the manager stops on shutdown / closed channel (E0). distinct = distinct (kind, early/tie/late/never) sequence; non-trivial = at least one timing fault fired AND a probe hit".into()
    }
    fn components_real(&self) -> Vec<&'static str> {
        vec![
            "barter::execution::manager::ExecutionManager::{new, run, process_*_response, process_*_timeout}",
            "barter::execution::request::RequestFuture (tokio::time::timeout)",
            "barter_execution::indexer::AccountEventIndexer",
            "barter_execution::map::generate_execution_instrument_map",
            "tokio current-thread runtime, paused clock (timers, FuturesUnordered, select!)",
        ]
    }
    fn components_stub(&self) -> Vec<&'static str> {
        vec![
            "ExecutionClient (scripted per-request delay / result / silence)",
            "request producer and response consumer (virtual-time driver + collector)",
        ]
    }
    fn fault_kinds(&self) -> Vec<&'static str> {
        vec![
            "client_never_responds",
            "response_after_timeout",
            "response_at_timeout_instant",
            "client_error_response",
            "response_receiver_dropped",
            "clock_jump",
            "mock_exchange_gone",
        ]
    }
    fn probe_kinds(&self) -> Vec<&'static str> {
        vec![
            "never_responding_client",
            "response_at_timeout_instant",
            "64_outstanding",
            "several_responses_same_instant",
            "client_order_id_shared_by_two_instruments",
            "manager_over_real_mock_client",
            "request_outstanding_when_exchange_went_away",
            "resolution_inside_clock_jump",
        ]
    }
    fn assumptions(&self) -> Vec<String> {
        vec![
            "all scenario delays are whole milliseconds (tokio's timer granularity)".into(),
            "a response landing exactly on the timeout instant may be reported either way".into(),
            "requests whose resolution instant is at/after the instant the response receiver is dropped are not checked".into(),
        ]
    }
}

// ================================================================================================
// C04
// ================================================================================================

/// exchange asset names; the last two differ from "btc" / "usdt" only in letter case (exchanges do list
/// e.g. WBTC next to wBTC): they are distinct assets with their own internal names
const ASSET_POOL: [&str; 7] = ["btc", "eth", "sol", "usdt", "usd", "BTC", "USDT"];

fn asset_c4(sym: &str) -> barter_instrument::asset::Asset {
    let internal = if sym.chars().any(|c| c.is_uppercase()) { format!("{}_v2", sym.to_lowercase()) } else { sym.to_string() };
    barter_instrument::asset::Asset {
        name_internal: barter_instrument::asset::name::AssetNameInternal::from(internal.as_str()),
        name_exchange: sym.into(),
    }
}

fn inst_c4(ex: ExchangeId, b: &str, q: &str, perp_settle: Option<&str>) -> Instrument<ExchangeId, barter_instrument::asset::Asset> {
    use barter_instrument::instrument::{kind::{InstrumentKind, perpetual::PerpetualContract}, name::InstrumentNameInternal, quote::InstrumentQuoteAsset};
    let (ba, qa) = (asset_c4(b), asset_c4(q));
    let suffix = if perp_settle.is_some() { "_perp" } else { "" };
    let name_exchange = barter_instrument::instrument::name::InstrumentNameExchange::from(format!("{b}_{q}{suffix}"));
    let name_internal = InstrumentNameInternal::new(format!("{}-{}_{}{suffix}", ex.as_str(), ba.name_internal, qa.name_internal));
    Instrument::new(
        ex,
        name_internal,
        name_exchange,
        barter_instrument::Underlying::new(ba, qa),
        InstrumentQuoteAsset::UnderlyingQuote,
        match perp_settle {
            Some(s) => InstrumentKind::Perpetual(PerpetualContract { contract_size: rust_decimal::Decimal::ONE, settlement_asset: asset_c4(s) }),
            None => InstrumentKind::Spot,
        },
        None,
    )
}

#[derive(Clone, Debug, Serialize, Deserialize, PartialEq)]
pub struct InstC4 {
    pub ex: usize,
    pub base: usize,
    pub quote: usize,
    pub perp: bool,
    /// settlement asset of a perpetual (index into the asset pool); None = the quote asset
    #[serde(default)]
    pub settle: Option<usize>,
}

#[derive(Clone, Debug, Serialize, Deserialize, PartialEq)]
pub enum OpC4 {
    /// engine command: open request for global instrument index
    Open { inst: usize },
    Cancel { inst: usize },
    /// exchange-side account events, emitted by *name* by the client of the instrument's exchange
    Balance { asset: usize, total: i64 },
    OrderReport { inst: usize },
    Trade { inst: usize, buy: bool },
    /// an order report naming instrument `inst` (exchange X, by name) that arrives on the link of a
    /// *different* exchange: it must not be applied to anything of that other exchange
    ForeignOrderReport { inst: usize },
    /// two open requests in flight at once on two instruments of one exchange, sharing the client
    /// order id (orders are identified by exchange, instrument, strategy and client order id)
    OpenPair { a: usize, b: usize },
    /// the exchange reports a balance for an asset the engine does not track, whose name is a tracked
    /// asset's name plus a wallet suffix ("btc.f", "usdt.hold"): nothing may change
    UntrackedWalletBalance { asset: usize, suffix: u8, total: i64 },
    /// the exchange of instrument `inst` reports (order report, or fill when `fill`) about an
    /// instrument the engine does not track on that exchange (manual trading, another bot): nothing
    /// of that exchange may change
    UntrackedInstrumentEvent { inst: usize, fill: bool },
}

#[derive(Clone, Debug, Serialize, Deserialize)]
pub struct ScenarioC4 {
    /// exchange slots that are tracked (have instruments) but get no execution link
    #[serde(default)]
    pub untraded: Vec<usize>,
    pub insts: Vec<InstC4>,
    pub ops: Vec<OpC4>,
    pub tokio_seed: u64,
    pub client_delay_ms: u64,
    /// per instrument index: the exchange's initial account snapshot lists the instrument with one
    /// open order (true) or with no orders (false); empty = snapshots list no instruments at all
    #[serde(default)]
    pub snap_orders: Vec<bool>,
    /// per asset index: the balance its exchange's initial account snapshot reports for it (None =
    /// the snapshot leaves that asset out)
    #[serde(default)]
    pub snap_balances: Vec<Option<i64>>,
}

pub struct SimC4;

#[derive(Debug, Clone)]
struct NoopClock;
impl EngineClock for NoopClock {
    fn time(&self) -> chrono::DateTime<chrono::Utc> {
        ts(0)
    }
}
impl<E> Processor<&E> for NoopClock {
    type Audit = ();
    fn process(&mut self, _: &E) {}
}

fn c4_instruments(sc: &ScenarioC4) -> IndexedInstruments {
    let mut seen: Vec<(usize, usize, usize, bool)> = Vec::new();
    let v: Vec<Instrument<ExchangeId, barter_instrument::asset::Asset>> = sc
        .insts
        .iter()
        .filter(|i| i.base != i.quote)
        .filter(|i| {
            let k = (i.ex % 4, i.base % 7, i.quote % 7, i.perp);
            if seen.contains(&k) {
                false
            } else {
                seen.push(k);
                true
            }
        })
        .map(|i| {
            let (b, q) = (ASSET_POOL[i.base % 7], ASSET_POOL[i.quote % 7]);
            inst_c4(EXS[i.ex % 4], b, q, i.perp.then(|| i.settle.map(|s| ASSET_POOL[s % 7]).unwrap_or(q)))
        })
        .collect();
    IndexedInstruments::new(v)
}

type EngC4 = Engine<
    NoopClock,
    St,
    MultiExchangeTxMap<UnboundedTx<ExecutionRequest>>,
    DefaultStrategy<St>,
    DefaultRiskManager<St>,
>;

impl Sim for SimC4 {
    type Scenario = ScenarioC4;

    fn name(&self) -> &'static str {
        "C:multi-exchange execution managers"
    }
    fn property(&self) -> &'static str {
        "C04"
    }
    fn sub_batches(&self) -> Vec<&'static str> {
        vec!["single_exchange", "multi_exchange_shared_names"]
    }
    fn default_runs(&self) -> (u64, u64) {
        (400_000, 15_000_000)
    }

    fn plan(&self, rng: &mut Rng, sub: usize) -> ScenarioC4 {
        let n_ex = if sub == 0 { 1 } else { 2 + rng.usize(3) };
        let mut insts = Vec::new();
        for e in 0..n_ex {
            let n = 1 + rng.usize(5);
            for _ in 0..n {
                // (multi-exchange sub-batch: now and then a name that differs from another only in case)
                let base = if sub == 1 && rng.chance(1, 8) { 5 } else { rng.usize(3) };
                let quote = if sub == 1 && rng.chance(1, 8) { 6 } else { 3 + rng.usize(2) };
                let is_perp = rng.chance(1, 4);
                let cand = InstC4 {
                    ex: e,
                    base,
                    quote,
                    perp: is_perp,
                    // sometimes settled in an asset that is neither underlying
                    settle: if is_perp && rng.chance(1, 2) { Some(rng.usize(if sub == 1 { 7 } else { 5 })) } else { None },
                };
                // one instrument per (exchange, name): the settlement asset is not part of the name
                if !insts.iter().any(|i: &InstC4| i.ex == cand.ex && i.base == cand.base && i.quote == cand.quote && i.perp == cand.perp) {
                    insts.push(cand);
                }
            }
        }
        // any definition order
        rng.shuffle(&mut insts);
        // tracked-but-not-traded exchanges (no execution link), never all of them
        let untraded: Vec<usize> = if n_ex > 1 && rng.chance(1, 3) { vec![rng.usize(n_ex)] } else { vec![] };
        let tmp = ScenarioC4 {
            untraded: vec![],
            insts: insts.clone(),
            ops: vec![],
            tokio_seed: 0,
            client_delay_ms: 0,
            snap_orders: vec![],
            snap_balances: vec![],
        };
        let ii = c4_instruments(&tmp);
        let (n_inst, n_assets) = (ii.instruments().len(), ii.assets().len());
        let mut ops = Vec::new();
        // every instrument is addressed at least once, then a random mix
        let mut order: Vec<usize> = (0..n_inst).collect();
        rng.shuffle(&mut order);
        for i in order {
            ops.push(OpC4::Open { inst: i });
        }
        for _ in 0..(n_inst + rng.usize(2 * n_inst + 4)) {
            ops.push(match rng.below(6) {
                0 => OpC4::Open { inst: rng.usize(n_inst) },
                1 => OpC4::Cancel { inst: rng.usize(n_inst) },
                2 => OpC4::Balance {
                    asset: rng.usize(n_assets),
                    total: rng.range(1, 10_000),
                },
                3 => {
                    if rng.chance(1, 4) {
                        OpC4::UntrackedWalletBalance { asset: rng.usize(n_assets), suffix: rng.below(3) as u8, total: rng.range(1, 10_000) }
                    } else if rng.chance(1, 3) {
                        OpC4::UntrackedInstrumentEvent { inst: rng.usize(n_inst), fill: rng.chance(1, 2) }
                    } else {
                        OpC4::Balance { asset: rng.usize(n_assets), total: rng.range(1, 10_000) }
                    }
                }
                4 => {
                    if sub == 1 && rng.chance(1, 3) {
                        OpC4::ForeignOrderReport { inst: rng.usize(n_inst) }
                    } else {
                        OpC4::OrderReport { inst: rng.usize(n_inst) }
                    }
                }
                _ => OpC4::Trade {
                    inst: rng.usize(n_inst),
                    buy: rng.chance(1, 2),
                },
            });
        }
        if n_inst > 1 && rng.chance(1, 2) {
            // (invalid pairs - different exchanges, untraded exchange - are skipped at run time)
            for _ in 0..(1 + rng.usize(3)) {
                let at = rng.usize(ops.len() + 1);
                ops.insert(at, OpC4::OpenPair { a: rng.usize(n_inst), b: rng.usize(n_inst) });
            }
        }
        ScenarioC4 {
            untraded,
            insts,
            ops,
            tokio_seed: rng.next_u64(),
            client_delay_ms: *rng.pick(&[0u64, 0, 1, 7]),
            snap_orders: if rng.chance(1, 2) { (0..n_inst).map(|_| rng.chance(1, 2)).collect() } else { vec![] },
            snap_balances: if rng.chance(1, 2) { (0..n_assets).map(|_| rng.chance(1, 2).then(|| rng.range(1, 10_000))).collect() } else { vec![] },
        }
    }

    fn execute(&self, sc: &ScenarioC4, ctx: &ExecCtx<'_>) -> Outcome {
        let pid = "C04";
        let mut log = Log::new(ctx.keep_log);
        let mut stats = RunStats::default();
        let mut violation: Option<Violation> = None;
        let instruments = c4_instruments(sc);
        let n_ex = instruments.exchanges().len();
        let n_inst = instruments.instruments().len();
        let n_assets = instruments.assets().len();
        if n_inst == 0 {
            return Outcome {
                violation: None,
                stats,
                log_hash: log.hash(),
                signature: log.signature(),
                log: log.lines,
            };
        }

        macro_rules! fail {
            ($l:lifetime, $rule:expr, $step:expr, $($arg:tt)*) => {{
                violation = report(ctx, &mut stats, pid, $rule, $step, format!($($arg)*), None);
                if violation.is_some() {
                    break $l;
                }
            }};
        }

        if instruments.assets().iter().any(|a| {
            instruments.assets().iter().any(|b| {
                a.key != b.key && a.value.exchange == b.value.exchange && a.value.asset.name_exchange.name().to_lowercase() == b.value.asset.name_exchange.name().to_lowercase()
            })
        }) {
            stats.probe("names_differing_only_in_case");
        }
        // ---- setup part: index <-> name round trip on every exchange's map -------------------
        let maps: Vec<_> = instruments
            .exchanges()
            .iter()
            .map(|e| generate_execution_instrument_map(&instruments, e.value))
            .collect();
        #[allow(clippy::never_loop)]
        'setup: loop {
            for (e, m) in maps.iter().enumerate() {
                let Ok(m) = m else {
                    fail!('setup, "X0_map_build", e, "cannot build execution map for exchange {e}");
                    continue;
                };
                for i in instruments.instruments() {
                    let mine = i.value.exchange.key.0 == e;
                    let name = m.find_instrument_name_exchange(i.key);
                    if mine {
                        match name {
                            Ok(n) if *n == i.value.name_exchange => {
                                if m.find_instrument_index(n).ok() != Some(i.key) {
                                    fail!('setup, "X1_instrument_round_trip", i.key.0, "exchange {e}: instrument index {} -> {n} -> {:?}", i.key.0, m.find_instrument_index(n));
                                }
                            }
                            other => {
                                fail!('setup, "X1_instrument_round_trip", i.key.0, "exchange {e}: instrument index {} ({}) translated to {:?}", i.key.0, i.value.name_exchange, other);
                            }
                        }
                    } else if let Ok(n) = name {
                        fail!('setup, "X2_foreign_index_translates", i.key.0, "exchange {e}: foreign instrument index {} (of exchange {}) translated to {n}", i.key.0, i.value.exchange.key.0);
                    }
                }
                for a in instruments.assets() {
                    let mine = instruments.find_exchange_index(a.value.exchange).unwrap().0 == e;
                    let name = m.find_asset_name_exchange(a.key);
                    if mine {
                        match name {
                            Ok(n) if *n == a.value.asset.name_exchange => {
                                if m.find_asset_index(n).ok() != Some(a.key) {
                                    fail!('setup, "X1_asset_round_trip", a.key.0, "exchange {e}: asset index {} -> {n} -> {:?}", a.key.0, m.find_asset_index(n));
                                }
                            }
                            other => {
                                fail!('setup, "X1_asset_round_trip", a.key.0, "exchange {e}: asset index {} ({}) translated to {:?}", a.key.0, a.value.asset.name_exchange, other);
                            }
                        }
                    } else if let Ok(n) = name {
                        fail!('setup, "X2_foreign_index_translates", a.key.0, "exchange {e}: foreign asset index {} translated to {n}", a.key.0);
                    }
                }
            }
            break;
        }
        if n_ex > 1 {
            stats.fault("multi_exchange_topology");
        }
        if !sc.untraded.is_empty() {
            stats.fault("untraded_exchange_without_link");
        }
        if violation.is_some() {
            return Outcome {
                violation,
                stats,
                log_hash: log.hash(),
                signature: log.signature(),
                log: log.lines,
            };
        }

        // ---- routing part: N managers running concurrently -----------------------------------
        let rt = paused_runtime(sc.tokio_seed);
        let ops = sc.ops.clone();
        let delay = sc.client_delay_ms;
        let keep = ctx.keep_log;
        let result: (Option<(String, usize, String)>, Vec<String>, Vec<String>, Vec<&'static str>, u64) = rt.block_on(async {
            let start = tokio::time::Instant::now();
            let mut lines: Vec<String> = Vec::new();
            let mut sigs: Vec<String> = Vec::new();
            let mut probes: Vec<&'static str> = Vec::new();
            let mut clients: Vec<SimClient> = Vec::new();
            let mut acct_txs = Vec::new();
            let mut traded: Vec<bool> = Vec::new();
            // the real builder: one ExecutionManager (init + run) per traded exchange, placeholders
            // for tracked-but-untraded ones, merged account channel
            let mut builder = ExecutionBuilder::new(&instruments);
            for ex in instruments.exchanges().iter() {
                let mut b = HashMap::new();
                for k in 0..ops.len() {
                    b.insert(format!("q{k}"), Behav { delay_ms: Some(delay), resp: Resp::OkOpen });
                }
                let listed: Vec<barter_execution::InstrumentAccountSnapshot<ExchangeId, barter_instrument::asset::name::AssetNameExchange, barter_instrument::instrument::name::InstrumentNameExchange>> = if sc.snap_orders.is_empty() {
                    vec![]
                } else {
                    instruments
                        .instruments()
                        .iter()
                        .filter(|i| i.value.exchange.key == ex.key)
                        .map(|i| barter_execution::InstrumentAccountSnapshot {
                            instrument: i.value.name_exchange.clone(),
                            orders: if sc.snap_orders.get(i.key.0).copied().unwrap_or(false) {
                                vec![Order {
                                    key: OrderKey {
                                        exchange: ex.value,
                                        instrument: i.value.name_exchange.clone(),
                                        strategy: strategy_id(),
                                        cid: ClientOrderId::new(format!("snap{}", i.key.0)),
                                    },
                                    side: Side::Buy,
                                    price: dec(100),
                                    quantity: dec(1),
                                    kind: OrderKind::Limit,
                                    time_in_force: TimeInForce::GoodUntilCancelled { post_only: false },
                                    state: OrderState::active(Open {
                                        id: OrderId::new(format!("x-snap{}", i.key.0)),
                                        time_exchange: ts(0),
                                        filled_quantity: dec(0),
                                    }),
                                }]
                            } else {
                                vec![]
                            },
                        })
                        .collect()
                };
                let (client, acct_tx) = SimClient::new_client(
                    ex.value,
                    b,
                    UnindexedAccountSnapshot {
                        exchange: ex.value,
                        balances: instruments
                            .assets()
                            .iter()
                            .filter(|a| a.value.exchange == ex.value)
                            .filter_map(|a| {
                                sc.snap_balances.get(a.key.0).copied().flatten().map(|total| AssetBalance {
                                    asset: a.value.asset.name_exchange.clone(),
                                    balance: Balance::new(dec(total), dec(total)),
                                    time_exchange: ts(1),
                                })
                            })
                            .collect(),
                        instruments: listed,
                    },
                );
                let slot = EXS.iter().position(|x| *x == ex.value).unwrap_or(0);
                let is_traded = !sc.untraded.contains(&slot);
                if is_traded {
                    let timeout = Duration::from_millis(1000);
                    let added = match slot {
                        0 => builder.add_live::<SimClientN<0>>(client.clone(), timeout),
                        1 => builder.add_live::<SimClientN<1>>(client.clone(), timeout),
                        2 => builder.add_live::<SimClientN<2>>(client.clone(), timeout),
                        _ => builder.add_live::<SimClientN<3>>(client.clone(), timeout),
                    };
                    builder = match added {
                        Ok(b) => b,
                        Err(e) => return (Some(("X0_manager_init".to_string(), slot, format!("ExecutionBuilder::add_live failed for {}: {e}", ex.value))), lines, sigs, probes, 0),
                    };
                }
                clients.push(client);
                acct_txs.push(acct_tx);
                traded.push(is_traded);
            }
            let execution = match builder.build().init().await {
                Ok(x) => x,
                Err(e) => return (Some(("X0_manager_init".to_string(), 0, format!("ExecutionBuild::init failed: {e}"))), lines, sigs, probes, 0),
            };
            let handles = execution.handles.managers;
            let mut merged_rx = execution.account_channel.rx;
            let _keep_forwarders = execution.handles.account_to_engines;
            let state = build_state(&instruments, TradingState::Disabled, &[]);
            let mut engine: EngC4 = Engine::new(NoopClock, state, execution.execution_txs, DefaultStrategy::default(), DefaultRiskManager::default());

            // let the initial account snapshots flow in
            tokio::time::sleep(Duration::from_millis(1)).await;
            while let Ok(ev) = merged_rx.rx.try_recv() {
                let _ = engine.process(EngineEvent::<DataKind>::Account(ev));
            }
            // balances reported by an exchange's account snapshot land on exactly the assets named, and
            // an asset the snapshot leaves out is left alone - on every exchange
            if sc.snap_balances.iter().any(|b| b.is_some()) {
                probes.push("account_snapshot_with_partial_balances");
                for a in instruments.assets() {
                    let e = instruments.find_exchange_index(a.value.exchange).unwrap().0;
                    let want = if traded[e] { sc.snap_balances.get(a.key.0).copied().flatten() } else { None };
                    let got = engine.state.assets.asset_index(&a.key).balance.map(|b| b.value.total);
                    if got != want.map(dec) {
                        return (Some(("X7_event_applied_to_wrong_item".to_string(), a.key.0, format!("initial account snapshots report {:?} for asset index {} = ({}, {}): the engine holds {:?}", want, a.key.0, a.value.exchange, a.value.asset.name_exchange, got))), lines, sigs, probes, 0);
                    }
                }
            }
            // orders listed by an exchange's account snapshot land on exactly the instrument named
            if !sc.snap_orders.is_empty() {
                probes.push("account_snapshot_lists_instruments");
                for j in 0..n_inst {
                    let e = instruments.instruments()[j].value.exchange.key.0;
                    if !traded[e] {
                        continue;
                    }
                    let want = sc.snap_orders.get(j).copied().unwrap_or(false);
                    for x in 0..n_inst {
                        let has = engine.state.instruments.instrument_index(&InstrumentIndex(x)).orders.0.contains_key(&ClientOrderId::new(format!("snap{j}")));
                        if has != (want && x == j) {
                            return (Some(("X7_event_applied_to_wrong_item".to_string(), j, format!("initial account snapshot of exchange {e} lists instrument index {j} = {} {}: afterwards instrument index {x} {} the order", instruments.instruments()[j].value.name_exchange, if want { "with one open order" } else { "without orders" }, if has { "tracks" } else { "does not track" }))), lines, sigs, probes, 0);
                        }
                    }
                }
            }

            let mut t_ms = 10i64;
            for (k, op) in ops.iter().enumerate() {
                t_ms += 1;
                let valid = match op {
                    OpC4::Open { inst }
                    | OpC4::Cancel { inst }
                    | OpC4::OrderReport { inst }
                    | OpC4::ForeignOrderReport { inst }
                    | OpC4::UntrackedInstrumentEvent { inst, .. }
                    | OpC4::Trade { inst, .. } => *inst < n_inst,
                    OpC4::Balance { asset, .. } | OpC4::UntrackedWalletBalance { asset, .. } => *asset < n_assets,
                    OpC4::OpenPair { a, b } => {
                        *a < n_inst
                            && *b < n_inst
                            && a != b
                            && instruments.instruments()[*a].value.exchange.key == instruments.instruments()[*b].value.exchange.key
                            && traded[instruments.instruments()[*a].value.exchange.key.0]
                    }
                };
                if !valid {
                    continue;
                }
                sigs.push(match op {
                    OpC4::Open { inst } => format!("o{}", instruments.instruments()[*inst].value.exchange.key.0),
                    OpC4::Cancel { inst } => format!("c{}", instruments.instruments()[*inst].value.exchange.key.0),
                    OpC4::Balance { asset, .. } => format!("b{asset}"),
                    OpC4::OrderReport { inst } => format!("r{inst}"),
                    OpC4::ForeignOrderReport { inst } => format!("fr{inst}"),
                    OpC4::Trade { inst, .. } => format!("t{inst}"),
                    OpC4::OpenPair { a, .. } => format!("p{}", instruments.instruments()[*a].value.exchange.key.0),
                    OpC4::UntrackedWalletBalance { asset, .. } => format!("ub{asset}"),
                    OpC4::UntrackedInstrumentEvent { inst, fill } => format!("ui{inst}{fill}"),
                });
                let recv_before: Vec<usize> = clients.iter().map(|c| c.0.received.lock().unwrap().len()).collect();
                let before = engine.state.clone();
                let cid = format!("q{k}");
                match op {
                    OpC4::Open { inst } | OpC4::Cancel { inst } => {
                        let ii = &instruments.instruments()[*inst];
                        let ex = ii.value.exchange.key.0;
                        let key = okey(ex, *inst, &cid);
                        let cmd = if matches!(op, OpC4::Open { .. }) {
                            Command::SendOpenRequests(OneOrMany::One(request_open(key, true, dec(100), dec(1), OrderKind::Limit)))
                        } else {
                            Command::SendCancelRequests(OneOrMany::One(request_cancel(key, None)))
                        };
                        let _ = engine.process(EngineEvent::<DataKind>::Command(cmd));
                        // let the manager, the client and the forwarder run
                        tokio::time::sleep(Duration::from_millis(delay + 1)).await;
                        if !traded[ex] {
                            // tracked but not traded: the request must reach nobody
                            probes.push("request_for_untraded_exchange");
                            for (e, c) in clients.iter().enumerate() {
                                let new: Vec<RecvReq> = c.0.received.lock().unwrap()[recv_before[e]..].to_vec();
                                if !new.is_empty() {
                                    return (Some(("X4_request_reached_wrong_exchange".to_string(), k, format!("request for instrument {inst} of exchange {ex}, which has no execution link, reached the client of exchange {e}: {new:?}"))), lines, sigs, probes, 0);
                                }
                            }
                            for h in &handles {
                                if h.is_finished() {
                                    return (Some(("X3_manager_died".to_string(), k, format!("an ExecutionManager task ended after a request for the untraded exchange {ex}"))), lines, sigs, probes, 0);
                                }
                            }
                            if merged_rx.rx.try_recv().is_ok() {
                                return (Some(("X6_response_attribution".to_string(), k, format!("a response arrived for a request addressed to the untraded exchange {ex}"))), lines, sigs, probes, 0);
                            }
                            continue;
                        }
                        for h in &handles {
                            if h.is_finished() {
                                return (Some(("X3_manager_died".to_string(), k, format!("an ExecutionManager task ended while handling a request for instrument {inst} ({} on exchange {ex})", ii.value.name_exchange))), lines, sigs, probes, start.elapsed().as_millis() as u64);
                            }
                        }
                        // outbound oracle
                        for (e, c) in clients.iter().enumerate() {
                            let new: Vec<RecvReq> = c.0.received.lock().unwrap()[recv_before[e]..].to_vec();
                            if e != ex {
                                if !new.is_empty() {
                                    return (Some(("X4_request_reached_wrong_exchange".to_string(), k, format!("request for instrument {inst} of exchange {ex} reached the client of exchange {e}: {new:?}"))), lines, sigs, probes, 0);
                                }
                                continue;
                            }
                            let ok = new.len() == 1
                                && new[0].exchange == ii.value.exchange.value
                                && new[0].instrument == ii.value.name_exchange.name().as_str()
                                && new[0].cid == cid
                                && new[0].open == matches!(op, OpC4::Open { .. });
                            if !ok {
                                return (Some(("X5_request_addressing".to_string(), k, format!("request for instrument index {inst} = ({}, {}): client of exchange {e} received {new:?}", ii.value.exchange.value, ii.value.name_exchange))), lines, sigs, probes, 0);
                            }
                        }
                        // response comes back indexed: apply and check it lands on the same instrument
                        let mut n_resp = 0;
                        while let Ok(ev) = merged_rx.rx.try_recv() {
                            n_resp += 1;
                            if let AccountStreamEvent::Item(item) = &ev {
                                let (ev_inst, ev_ex) = match &item.kind {
                                    AccountEventKind::OrderSnapshot(s) => (s.0.key.instrument.0, s.0.key.exchange.0),
                                    AccountEventKind::OrderCancelled(c) => (c.key.instrument.0, c.key.exchange.0),
                                    _ => (usize::MAX, usize::MAX),
                                };
                                if ev_inst != *inst || ev_ex != ex || item.exchange.0 != ex {
                                    return (Some(("X6_response_attribution".to_string(), k, format!("response to request for instrument {inst} / exchange {ex} was indexed as instrument {ev_inst} / exchange {ev_ex}"))), lines, sigs, probes, 0);
                                }
                            }
                            let _ = engine.process(EngineEvent::<DataKind>::Account(ev));
                        }
                        if n_resp != 1 {
                            return (Some(("X6_response_attribution".to_string(), k, format!("{n_resp} response events for one request"))), lines, sigs, probes, 0);
                        }
                        if matches!(op, OpC4::Open { .. }) {
                            let tracked = engine.state.instruments.instrument_index(&InstrumentIndex(*inst)).orders.0.contains_key(&ClientOrderId::new(cid.as_str()));
                            if !tracked {
                                return (Some(("X7_event_applied_to_wrong_item".to_string(), k, format!("open order {cid} for instrument {inst} is not tracked under that instrument after its response"))), lines, sigs, probes, 0);
                            }
                        }
                        if n_ex > 1 && ex > 0 {
                            probes.push("request_to_non_first_exchange");
                        }
                    }
                    OpC4::OpenPair { a, b } => {
                        probes.push("two_requests_share_client_order_id");
                        let ex = instruments.instruments()[*a].value.exchange.key.0;
                        for inst in [*a, *b] {
                            let cmd = Command::SendOpenRequests(OneOrMany::One(request_open(okey(ex, inst, &cid), true, dec(100), dec(1), OrderKind::Limit)));
                            let _ = engine.process(EngineEvent::<DataKind>::Command(cmd));
                        }
                        tokio::time::sleep(Duration::from_millis(delay + 1)).await;
                        let mut got: Vec<(usize, usize)> = Vec::new();
                        while let Ok(ev) = merged_rx.rx.try_recv() {
                            if let AccountStreamEvent::Item(item) = &ev {
                                if let AccountEventKind::OrderSnapshot(s) = &item.kind {
                                    got.push((s.0.key.exchange.0, s.0.key.instrument.0));
                                }
                            }
                            let _ = engine.process(EngineEvent::<DataKind>::Account(ev));
                        }
                        got.sort();
                        let mut want = vec![(ex, *a), (ex, *b)];
                        want.sort();
                        if got != want {
                            return (Some(("X6_response_attribution".to_string(), k, format!("two opens with client order id {cid} in flight on instruments {a} and {b} of exchange {ex}: responses were indexed as (exchange, instrument) {got:?}"))), lines, sigs, probes, 0);
                        }
                        for inst in [*a, *b] {
                            if !engine.state.instruments.instrument_index(&InstrumentIndex(inst)).orders.0.contains_key(&ClientOrderId::new(cid.as_str())) {
                                return (Some(("X7_event_applied_to_wrong_item".to_string(), k, format!("order {cid} for instrument {inst} is not tracked under that instrument after its response"))), lines, sigs, probes, 0);
                            }
                        }
                    }
                    OpC4::UntrackedWalletBalance { asset, suffix, total } => {
                        let a = &instruments.assets()[*asset];
                        let e = instruments.find_exchange_index(a.value.exchange).unwrap().0;
                        if !traded[e] {
                            continue;
                        }
                        let name = format!("{}.{}", a.value.asset.name_exchange.name(), ["f", "s", "hold"][*suffix as usize % 3]);
                        if instruments.assets().iter().any(|x| x.value.exchange == a.value.exchange && x.value.asset.name_exchange.name().as_str() == name) {
                            continue;
                        }
                        probes.push("balance_for_untracked_wallet_of_tracked_asset");
                        let _ = acct_txs[e].send(UnindexedAccountEvent {
                            exchange: a.value.exchange,
                            kind: AccountEventKind::BalanceSnapshot(Snapshot(AssetBalance {
                                asset: barter_instrument::asset::name::AssetNameExchange::from(name.as_str()),
                                balance: Balance::new(dec(*total), dec(*total)),
                                time_exchange: ts(t_ms),
                            })),
                        });
                        tokio::time::sleep(Duration::from_millis(1)).await;
                        while let Ok(ev) = merged_rx.rx.try_recv() {
                            let _ = engine.process(EngineEvent::<DataKind>::Account(ev));
                        }
                        for x in 0..n_assets {
                            if before.assets.asset_index(&AssetIndex(x)).balance != engine.state.assets.asset_index(&AssetIndex(x)).balance {
                                return (Some(("X2_foreign_name_translated".to_string(), k, format!("a balance for {name}, which exchange {e} does not track, changed the balance of asset index {x} = ({}, {})", instruments.assets()[x].value.exchange, instruments.assets()[x].value.asset.name_exchange))), lines, sigs, probes, 0);
                            }
                        }
                    }
                    OpC4::Balance { asset, total } => {
                        let a = &instruments.assets()[*asset];
                        let e = instruments.find_exchange_index(a.value.exchange).unwrap().0;
                        if !traded[e] {
                            continue;
                        }
                        if !instruments.instruments().iter().any(|i| i.value.exchange.key.0 == e && (i.value.underlying.base == a.key || i.value.underlying.quote == a.key)) {
                            probes.push("balance_for_settlement_only_asset");
                        }
                        let ev = UnindexedAccountEvent {
                            exchange: a.value.exchange,
                            kind: AccountEventKind::BalanceSnapshot(Snapshot(AssetBalance {
                                asset: a.value.asset.name_exchange.clone(),
                                balance: Balance::new(dec(*total), dec(*total)),
                                time_exchange: ts(t_ms),
                            })),
                        };
                        let _ = acct_txs[e].send(ev);
                        tokio::time::sleep(Duration::from_millis(1)).await;
                        let mut n = 0;
                        while let Ok(ev) = merged_rx.rx.try_recv() {
                            n += 1;
                            let _ = engine.process(EngineEvent::<DataKind>::Account(ev));
                        }
                        // inbound oracle: exactly that asset changed
                        let shared = instruments.assets().iter().filter(|x| x.value.asset.name_exchange == a.value.asset.name_exchange).count() > 1;
                        if shared {
                            probes.push("asset_name_shared_between_exchanges");
                        }
                        for x in 0..n_assets {
                            let b = before.assets.asset_index(&AssetIndex(x)).balance;
                            let af = engine.state.assets.asset_index(&AssetIndex(x)).balance;
                            if x == *asset {
                                let ok = af.is_some_and(|v| v.value.total == dec(*total));
                                if n != 1 || !ok {
                                    return (Some(("X7_event_applied_to_wrong_item".to_string(), k, format!("balance {total} for asset index {asset} = ({}, {}): {n} events arrived, engine holds {:?}", a.value.exchange, a.value.asset.name_exchange, af.map(|v| v.value.total)))), lines, sigs, probes, 0);
                                }
                            } else if b != af {
                                return (Some(("X7_event_applied_to_wrong_item".to_string(), k, format!("balance event for asset index {asset} = ({}, {}) changed asset index {x}", a.value.exchange, a.value.asset.name_exchange))), lines, sigs, probes, 0);
                            }
                        }
                    }
                    OpC4::ForeignOrderReport { inst } => {
                        let ii = &instruments.instruments()[*inst];
                        let x = ii.value.exchange.key.0;
                        // another traded exchange, preferably one that lists the same instrument name
                        let others: Vec<usize> = (0..n_ex).filter(|e| *e != x && traded[*e]).collect();
                        let Some(y) = others
                            .iter()
                            .copied()
                            .find(|e| instruments.instruments().iter().any(|j| j.value.exchange.key.0 == *e && j.value.name_exchange == ii.value.name_exchange))
                            .or(others.first().copied())
                        else {
                            continue;
                        };
                        let _ = acct_txs[y].send(UnindexedAccountEvent {
                            // the envelope is the link's own exchange; the order key inside names X
                            exchange: instruments.exchanges()[y].value,
                            kind: AccountEventKind::OrderSnapshot(Snapshot(Order {
                                key: OrderKey {
                                    exchange: ii.value.exchange.value,
                                    instrument: ii.value.name_exchange.clone(),
                                    strategy: strategy_id(),
                                    cid: ClientOrderId::new(cid.as_str()),
                                },
                                side: Side::Buy,
                                price: dec(100),
                                quantity: dec(1),
                                kind: OrderKind::Limit,
                                time_in_force: TimeInForce::GoodUntilCancelled { post_only: false },
                                state: OrderState::active(Open {
                                    id: OrderId::new(format!("x-{cid}")),
                                    time_exchange: ts(t_ms),
                                    filled_quantity: dec(0),
                                }),
                            })),
                        });
                        tokio::time::sleep(Duration::from_millis(1)).await;
                        while let Ok(ev) = merged_rx.rx.try_recv() {
                            let _ = engine.process(EngineEvent::<DataKind>::Account(ev));
                        }
                        probes.push("report_naming_foreign_exchange");
                        for j in 0..n_inst {
                            if instruments.instruments()[j].value.exchange.key.0 != y {
                                continue;
                            }
                            let b = before.instruments.instrument_index(&InstrumentIndex(j));
                            let af = engine.state.instruments.instrument_index(&InstrumentIndex(j));
                            if b != af {
                                return (Some(("X7_event_applied_to_wrong_item".to_string(), k, format!("an order report naming ({}, {}) arrived on the link of exchange {y} and changed that exchange's instrument index {j}", ii.value.exchange.value, ii.value.name_exchange))), lines, sigs, probes, 0);
                            }
                        }
                    }
                    OpC4::UntrackedInstrumentEvent { inst, fill } => {
                        let ii = &instruments.instruments()[*inst];
                        let x = ii.value.exchange.key.0;
                        if !traded[x] {
                            continue;
                        }
                        // a name this exchange's link does not know: another exchange's instrument it
                        // does not list itself, else a made-up one
                        let name = instruments
                            .instruments()
                            .iter()
                            .map(|j| j.value.name_exchange.clone())
                            .find(|n| !instruments.instruments().iter().any(|j| j.value.exchange.key.0 == x && j.value.name_exchange == *n))
                            .unwrap_or_else(|| barter_instrument::instrument::name::InstrumentNameExchange::from("doge_shib"));
                        let kind = if *fill {
                            AccountEventKind::Trade(barter_execution::trade::Trade {
                                id: barter_execution::trade::TradeId::new(format!("ut-{k}")),
                                order_id: OrderId::new(format!("ux-{k}")),
                                instrument: name.clone(),
                                strategy: strategy_id(),
                                time_exchange: ts(t_ms),
                                side: Side::Buy,
                                price: dec(100),
                                quantity: dec(1),
                                fees: barter_execution::trade::AssetFees::quote_fees(dec(0)),
                            })
                        } else {
                            AccountEventKind::OrderSnapshot(Snapshot(Order {
                                key: OrderKey {
                                    exchange: ii.value.exchange.value,
                                    instrument: name.clone(),
                                    strategy: strategy_id(),
                                    cid: ClientOrderId::new(format!("manual-{k}")),
                                },
                                side: Side::Buy,
                                price: dec(100),
                                quantity: dec(1),
                                kind: OrderKind::Limit,
                                time_in_force: TimeInForce::GoodUntilCancelled { post_only: false },
                                state: OrderState::active(Open {
                                    id: OrderId::new(format!("ux-{k}")),
                                    time_exchange: ts(t_ms),
                                    filled_quantity: dec(0),
                                }),
                            }))
                        };
                        let _ = acct_txs[x].send(UnindexedAccountEvent { exchange: ii.value.exchange.value, kind });
                        tokio::time::sleep(Duration::from_millis(1)).await;
                        while let Ok(ev) = merged_rx.rx.try_recv() {
                            let _ = engine.process(EngineEvent::<DataKind>::Account(ev));
                        }
                        probes.push("event_naming_untracked_instrument");
                        for j in 0..n_inst {
                            let b = before.instruments.instrument_index(&InstrumentIndex(j));
                            let af = engine.state.instruments.instrument_index(&InstrumentIndex(j));
                            if b != af {
                                return (Some(("X7_event_applied_to_wrong_item".to_string(), k, format!("exchange {x} reported about instrument {name}, which the engine does not track there, and instrument index {j} changed"))), lines, sigs, probes, 0);
                            }
                        }
                    }
                    OpC4::OrderReport { inst } | OpC4::Trade { inst, .. } => {
                        let ii = &instruments.instruments()[*inst];
                        let e = ii.value.exchange.key.0;
                        if !traded[e] {
                            continue;
                        }
                        let kind = match op {
                            OpC4::OrderReport { .. } => AccountEventKind::OrderSnapshot(Snapshot(Order {
                                key: OrderKey {
                                    exchange: ii.value.exchange.value,
                                    instrument: ii.value.name_exchange.clone(),
                                    strategy: strategy_id(),
                                    cid: ClientOrderId::new(cid.as_str()),
                                },
                                side: Side::Buy,
                                price: dec(100),
                                quantity: dec(1),
                                kind: OrderKind::Limit,
                                time_in_force: TimeInForce::GoodUntilCancelled { post_only: false },
                                state: OrderState::active(Open {
                                    id: OrderId::new(format!("x-{cid}")),
                                    time_exchange: ts(t_ms),
                                    filled_quantity: dec(0),
                                }),
                            })),
                            OpC4::Trade { buy, .. } => AccountEventKind::Trade(Trade {
                                id: TradeId::new(format!("t-{cid}")),
                                order_id: OrderId::new(format!("x-{cid}")),
                                instrument: ii.value.name_exchange.clone(),
                                strategy: strategy_id(),
                                time_exchange: ts(t_ms),
                                side: side_of(*buy),
                                price: dec(100),
                                quantity: dec(1),
                                fees: AssetFees::quote_fees(dec(0)),
                            }),
                            _ => unreachable!(),
                        };
                        let _ = acct_txs[e].send(UnindexedAccountEvent {
                            exchange: ii.value.exchange.value,
                            kind,
                        });
                        tokio::time::sleep(Duration::from_millis(1)).await;
                        let mut n = 0;
                        while let Ok(ev) = merged_rx.rx.try_recv() {
                            n += 1;
                            let _ = engine.process(EngineEvent::<DataKind>::Account(ev));
                        }
                        let shared = instruments.instruments().iter().filter(|x| x.value.name_exchange == ii.value.name_exchange).count() > 1;
                        if shared {
                            probes.push("instrument_name_shared_between_exchanges");
                        }
                        for x in 0..n_inst {
                            let b = before.instruments.instrument_index(&InstrumentIndex(x));
                            let af = engine.state.instruments.instrument_index(&InstrumentIndex(x));
                            if x == *inst {
                                let ok = match op {
                                    OpC4::OrderReport { .. } => af.orders.0.contains_key(&ClientOrderId::new(cid.as_str())),
                                    _ => af.position != b.position,
                                };
                                if n != 1 || !ok {
                                    return (Some(("X7_event_applied_to_wrong_item".to_string(), k, format!("{op:?} for instrument index {inst} = ({}, {}): {n} events arrived, not reflected on that instrument", ii.value.exchange.value, ii.value.name_exchange))), lines, sigs, probes, 0);
                                }
                            } else if b != af {
                                return (Some(("X7_event_applied_to_wrong_item".to_string(), k, format!("{op:?} for instrument index {inst} = ({}, {}) changed instrument index {x}", ii.value.exchange.value, ii.value.name_exchange))), lines, sigs, probes, 0);
                            }
                        }
                    }
                }
                let _ = keep;
                lines.push(format!(
                    "op {k}: {op:?} ok; client deliveries {:?}",
                    clients.iter().map(|c| c.0.received.lock().unwrap().len()).collect::<Vec<_>>()
                ));
            }
            let end = start.elapsed().as_millis() as u64;
            for h in handles {
                h.abort();
            }
            for h in _keep_forwarders {
                h.abort();
            }
            (None, lines, sigs, probes, end)
        });
        drop(rt);
        let (v, lines, sigs, probes, end_ms) = result;
        for l in lines {
            log.line(|| l);
        }
        for s in &sigs {
            log.sig(s);
        }
        for p in probes {
            stats.probe(p);
        }
        stats.steps = sigs.len() as u64;
        stats.sim_time_ms = end_ms;
        if let Some((rule, step, detail)) = v {
            violation = report(ctx, &mut stats, pid, &rule, step, detail, None);
        }
        Outcome {
            violation,
            stats,
            log_hash: log.hash(),
            signature: log.signature(),
            log: log.lines,
        }
    }

    fn shrink_len(&self, sc: &ScenarioC4) -> usize {
        sc.ops.len() + sc.insts.len()
    }
    fn shrink_remove(&self, sc: &ScenarioC4, from: usize, to: usize) -> ScenarioC4 {
        let mut s = sc.clone();
        let n = s.ops.len();
        let (nf, nt) = (from.max(n) - n, to.max(n) - n);
        if nt > nf {
            s.insts.drain(nf..nt.min(s.insts.len()));
        }
        if from < n {
            s.ops.drain(from..to.min(n));
        }
        s
    }
    fn simplify(&self, sc: &ScenarioC4) -> Vec<ScenarioC4> {
        let mut out = Vec::new();
        if sc.client_delay_ms != 0 {
            let mut s = sc.clone();
            s.client_delay_ms = 0;
            out.push(s);
        }
        for (k, i) in sc.insts.iter().enumerate() {
            if i.perp {
                let mut s = sc.clone();
                s.insts[k].perp = false;
                out.push(s);
            }
        }
        out
    }

    fn rule_text(&self) -> String {
        "each run = one PRNG-planned topology (1-4 exchanges, 1-5 spot/perpetual instruments each in any definition order, asset and instrument names shared between exchanges) with one real ExecutionManager (init + run) per exchange running concurrently on a paused tokio runtime behind a scripted client, a real engine issuing open/cancel commands for every instrument, and exchange-side balance / order / trade events emitted by *name*. Setup: every index of every exchange translates index->name->index to itself and every foreign index fails to translate (X1, X2). Routing: each request reaches exactly the client of its exchange addressed to that instrument's exchange name (X4, X5), no manager dies (X3), responses and account events come back indexed to the same instrument / asset and change exactly that item in the engine (X6, X7). distinct = distinct op skeleton incl. exchange of each request; non-trivial = multi-exchange topology AND a probe (request to a non-first exchange, name shared between exchanges) hit".into()
    }
    fn components_real(&self) -> Vec<&'static str> {
        vec![
            "barter_instrument::index::IndexedInstruments (builder)",
            "barter_execution::map::{ExecutionInstrumentMap, generate_execution_instrument_map}",
            "barter_execution::indexer::{AccountEventIndexer, IndexedAccountStream}",
            "barter::execution::manager::ExecutionManager::{init, run}",
            "barter_data::streams::reconnect::stream::{init_reconnecting_stream, forward_to}, barter_integration merge",
            "barter::engine::{Engine::process, MultiExchangeTxMap<UnboundedTx>}, EngineState",
        ]
    }
    fn components_stub(&self) -> Vec<&'static str> {
        vec!["ExecutionClient per exchange (records requests, emits account events by name)"]
    }
    fn fault_kinds(&self) -> Vec<&'static str> {
        vec!["multi_exchange_topology", "untraded_exchange_without_link"]
    }
    fn probe_kinds(&self) -> Vec<&'static str> {
        vec![
            "request_to_non_first_exchange",
            "account_snapshot_lists_instruments",
            "account_snapshot_with_partial_balances",
            "two_requests_share_client_order_id",
            "balance_for_untracked_wallet_of_tracked_asset",
            "names_differing_only_in_case",
            "asset_name_shared_between_exchanges",
            "instrument_name_shared_between_exchanges",
            "request_for_untraded_exchange",
            "balance_for_settlement_only_asset",
            "report_naming_foreign_exchange",
            "event_naming_untracked_instrument",
        ]
    }
    fn assumptions(&self) -> Vec<String> {
        vec!["no fault is injected beyond the random topology and response delay: the property is about routing between concurrently running components, timeouts are C07's subject".into()]
    }
}
