//! Sim H — the whole trading system under one simulated clock.
//!
//! Everything between the strategy and the exchange is the real code, wired the way
//! `SystemBuilder` wires it: `ExecutionBuilder::add_live` -> `ExecutionManager::{init, run}` (with
//! its reconnecting account stream, request timeouts and the merged account channel) ->
//! `SystemBuild::init` (market / account forwarders, engine feed, `async_run_with_audit`) ->
//! `Engine::process` with `LiveClock` reading the simulated wall clock (hook H1). The simulator owns
//! the far side of every seam: the scripted exchange client (per-request delay / outcome /
//! silence, unsolicited account-stream reports, dropped account connections), the market stream,
//! the strategy / risk scripts, the operator's commands, the runtime's tie-breaks, spurious
//! channel wake-ups (hook H2) and leaps of the clock.
//!
//! The oracles look at what a user of the system can see: the audit stream, the requests that
//! reached the exchange clients, and the engine handed back by `System::shutdown`.

use crate::{
    engine_world::*,
    kit::{ExecCtx, Log, Outcome, RunStats, Sim, Violation, report, rng::Rng},
    sim_a::{Exp, M, OD, OpA, SnapSt, expect_op},
    sim_b::{Req, close_enough, decode, pnl_estimate},
    sim_client::*,
    sim_f::{Tick, diff_states},
    world::*,
};
use barter::{
    EngineEvent,
    engine::{
        Engine,
        audit::{AuditTick, EngineAudit, context::EngineContext, state_replica::StateReplicaManager},
        clock::LiveClock,
        execution_tx::MultiExchangeTxMap,
        state::{
            connectivity::Health, instrument::filter::InstrumentFilter, trading::TradingState,
        },
    },
    execution::{AccountStreamEvent, builder::ExecutionBuilder},
    system::builder::{AuditMode, EngineFeedMode, SystemBuild},
};
use barter::engine::state::instrument::data::InstrumentDataState;
use barter_data::streams::consumer::MarketStreamEvent;
use barter_execution::{
    AccountEventKind, UnindexedAccountEvent, UnindexedAccountSnapshot,
    balance::{AssetBalance, Balance},
    error::{ConnectivityError, OrderError},
    order::{
        Order, OrderKey, OrderKind, TimeInForce,
        id::{ClientOrderId, OrderId},
        state::{ActiveOrderState, Cancelled, InactiveOrderState, Open, OrderState},
    },
};
use barter_instrument::{
    exchange::{ExchangeId, ExchangeIndex},
    index::IndexedInstruments,
    instrument::InstrumentIndex,
};
use barter_integration::{Terminal, collection::one_or_many::OneOrMany, snapshot::Snapshot};
use chrono::{DateTime, Utc};
use rust_decimal::prelude::ToPrimitive;
use serde::{Deserialize, Serialize};
use std::{
    cell::{Cell, RefCell},
    collections::{BTreeMap, HashMap, VecDeque},
    rc::Rc,
    sync::{Arc, Mutex},
    time::Duration,
};
use tokio_stream::wrappers::UnboundedReceiverStream;

#[derive(Clone, Copy, PartialEq, Eq, Debug)]
pub enum PropH {
    C01,
    C03,
    C07,
    C10,
    C14,
    C09,
    C15,
    C19,
    C12,
}

pub struct SimH {
    pub prop: PropH,
}

type EngH = Engine<LiveClock, St, MultiExchangeTxMap, SimStrategy, SimRisk>;

// ------------------------------------------------------------------------------------------------
// Scenario
// ------------------------------------------------------------------------------------------------

#[derive(Clone, Debug, Serialize, Deserialize, PartialEq)]
pub struct OrdH {
    pub inst: usize,
    pub buy: bool,
    pub qty: i64,
    /// how the exchange client answers the open request for this order
    pub open: Behav,
    /// ... and a cancel request for it
    pub cancel: Behav,
}

#[derive(Clone, Debug, Serialize, Deserialize, PartialEq)]
pub enum RepH {
    /// unsolicited report on the account stream; `filled == qty` means nothing left to fill
    Open { filled: i64 },
    Cancelled,
    Expired,
}

#[derive(Clone, Debug, Serialize, Deserialize, PartialEq)]
pub enum KindH {
    /// public trade stamped `lag_ms` before the instant it is pushed
    Market {
        inst: usize,
        price: i64,
        #[serde(default)]
        lag_ms: u64,
    },
    MarketReconnecting { ex: usize },
    /// report stamped `lag_ms` before the instant it is pushed (exchange-side latency)
    AcctOrder { ord: usize, rep: RepH, lag_ms: u64 },
    AcctBalance { asset: usize, total: i64, lag_ms: u64 },
    /// a fill reported on the account stream (opens / changes / closes a position)
    AcctTrade { inst: usize, buy: bool, qty: i64, price: i64, fee: i64 },
    /// the exchange closes the account-stream connection
    AcctDrop { ex: usize },
    CmdOpen { ords: Vec<usize> },
    CmdCancel { ords: Vec<usize> },
    CmdCancelAll,
    CmdClosePositions,
    CmdCancelFiltered { filter: FilterB },
    CmdCloseFiltered { filter: FilterB },
    Trading { enabled: bool },
}

#[derive(Clone, Debug, Serialize, Deserialize, PartialEq)]
pub struct StepH {
    pub at_ms: u64,
    pub kind: KindH,
}

#[derive(Clone, Debug, Serialize, Deserialize, PartialEq)]
pub struct BatchH {
    /// released when the strategy is asked for the `at_call`-th time (or later)
    pub at_call: u64,
    pub cancels: Vec<usize>,
    pub opens: Vec<usize>,
}

#[derive(Clone, Debug, Serialize, Deserialize)]
pub struct ScenarioH {
    pub tokio_seed: u64,
    pub timeout_ms: u64,
    pub inst_per_ex: Vec<usize>,
    pub trading_enabled_at_start: bool,
    pub ords: Vec<OrdH>,
    pub steps: Vec<StepH>,
    pub batches: Vec<BatchH>,
    pub refuse_opens: Vec<usize>,
    pub refuse_cancels: Vec<usize>,
    /// the clock leaps forward by `.1` ms at instant `.0`
    pub jump: Option<(u64, u64)>,
    /// per-mille chance that a channel receive yields spuriously (hook H2)
    pub yield_pm: u64,
    /// this exchange is tracked by the engine but has no execution link (never added to the builder)
    #[serde(default)]
    pub untraded: Option<usize>,
    /// account snapshots (initial and after every re-connection) list each instrument, with no orders
    #[serde(default)]
    pub snapshot_lists_instruments: bool,
    /// the execution side is wired by hand the way `ExecutionBuilder::add_mock` wires a generic
    /// client (one whose `ExecutionClient::EXCHANGE` is not the exchange it trades on) instead of
    /// through `ExecutionBuilder::add_live`
    #[serde(default)]
    pub generic_client: bool,
    /// every second instrument of an exchange is a perpetual with a contract size other than 1
    #[serde(default)]
    pub derivs: bool,
    /// the first account snapshot after every dropped connection reports a balance for an asset
    /// nobody configured: that re-initialisation fails (the manager cannot index it) and has to be
    /// retried after the backoff
    #[serde(default)]
    pub poisoned_resnapshot: bool,
    /// how many re-initialisations in a row fail after each dropped account connection (0 = 1);
    /// 12 outlasts the whole backoff ladder (125 ms doubling up to its 60 s cap)
    #[serde(default)]
    pub poison_len: u8,
}

fn cid(ord: usize) -> String {
    format!("h{ord}")
}

fn ord_of_cid(c: &str) -> Option<usize> {
    c.strip_prefix('h').and_then(|s| s.parse().ok())
}

thread_local! {
    static HSTART: Cell<Option<tokio::time::Instant>> = const { Cell::new(None) };
}

fn virtual_wall_h() -> DateTime<Utc> {
    match HSTART.with(|s| s.get()) {
        Some(s) => ts(0) + chrono::TimeDelta::from_std(tokio::time::Instant::now() - s).unwrap_or_default(),
        None => ts(0),
    }
}

struct WorldH {
    instruments: IndexedInstruments,
    n_ex: usize,
    inst_ex: Vec<usize>,
    asset_ex: Vec<usize>,
    inst_underlying: Vec<barter_instrument::Underlying<barter_instrument::asset::AssetIndex>>,
}

impl WorldH {
    fn new(sc: &ScenarioH) -> Self {
        let instruments = topo_instruments_b(&TopoB {
            inst_per_ex: sc.inst_per_ex.clone(),
            links: vec![],
            derivs: sc.derivs,
            with_spec: false,
        });
        let n_ex = instruments.exchanges().len();
        let inst_ex = instruments.instruments().iter().map(|i| i.value.exchange.key.0).collect();
        let asset_ex = instruments
            .assets()
            .iter()
            .map(|a| instruments.find_exchange_index(a.value.exchange).unwrap().0)
            .collect();
        let inst_underlying = instruments.instruments().iter().map(|i| i.value.underlying.clone()).collect();
        WorldH { instruments, n_ex, inst_ex, asset_ex, inst_underlying }
    }
    fn filter_ok(&self, f: &FilterB) -> bool {
        match f {
            FilterB::None => true,
            FilterB::Exchanges(_) | FilterB::Instruments(_) => true,
            FilterB::UnderlyingsOf(v) => v.is_empty() || v.iter().any(|i| *i < self.n_inst()),
        }
    }
    fn filter(&self, f: &FilterB) -> InstrumentFilter {
        match f {
            FilterB::None => InstrumentFilter::None,
            FilterB::Exchanges(v) => InstrumentFilter::exchanges(v.iter().map(|e| ExchangeIndex(*e))),
            FilterB::Instruments(v) => InstrumentFilter::instruments(v.iter().map(|i| InstrumentIndex(*i))),
            FilterB::UnderlyingsOf(v) => InstrumentFilter::underlyings(v.iter().filter(|i| **i < self.n_inst()).map(|i| self.inst_underlying[*i].clone())),
        }
    }
    /// Which instruments a filter names - from the instrument definitions only.
    fn scope(&self, f: &FilterB) -> Vec<bool> {
        (0..self.n_inst())
            .map(|i| match f {
                FilterB::None => true,
                FilterB::Exchanges(v) => v.contains(&self.inst_ex[i]),
                FilterB::Instruments(v) => v.contains(&i),
                FilterB::UnderlyingsOf(v) => v.iter().filter(|j| **j < self.n_inst()).any(|j| self.inst_underlying[*j] == self.inst_underlying[i]),
            })
            .collect()
    }
    fn n_inst(&self) -> usize {
        self.inst_ex.len()
    }
    fn ord_ok(&self, sc: &ScenarioH, o: usize) -> bool {
        sc.ords.get(o).is_some_and(|x| x.inst < self.n_inst())
    }
    fn key(&self, sc: &ScenarioH, o: usize) -> barter_execution::order::OrderKey {
        let inst = sc.ords[o].inst;
        okey(self.inst_ex[inst], inst, &cid(o))
    }
    fn open_req(&self, sc: &ScenarioH, o: usize) -> barter_execution::order::request::OrderRequestOpen {
        request_open(self.key(sc, o), sc.ords[o].buy, dec(100), dec(sc.ords[o].qty), OrderKind::Limit)
    }
    fn cancel_req(&self, sc: &ScenarioH, o: usize) -> barter_execution::order::request::OrderRequestCancel {
        request_cancel(self.key(sc, o), None)
    }
}

/// What the run produced (everything the oracles look at).
struct RunOut {
    snapshot: AuditTick<St, EngineContext>,
    ticks: Vec<Tick>,
    final_state: St,
    received: Vec<Vec<RecvReq>>,
    disconnects: Vec<ExchangeId>,
    algo_calls: u64,
    batches_released: u64,
    market_items_pushed: u64,
    market_notices_pushed: Vec<u64>,
    account_drops: Vec<u64>,
    account_items_pushed: u64,
    commands_pushed: u64,
    /// filters of the cancel-orders / close-positions commands, in the order they were pushed
    cancel_filters: Vec<FilterB>,
    close_filters: Vec<FilterB>,
    /// fills pushed on an account stream: (exchange, instant, trade id); drops: (exchange, instant)
    trades_pushed: Vec<(usize, u64, String)>,
    drop_instants: Vec<(usize, u64)>,
    end_ms: u64,
    /// the engine task had already ended (fatal error) when the run went quiet
    engine_died: bool,
}

fn run_system(sc: &ScenarioH, w: &WorldH) -> Result<RunOut, String> {
    let rt = paused_runtime(sc.tokio_seed);
    if sc.yield_pm > 0 {
        let mut hr = Rng::new(sc.tokio_seed ^ 0x9e37_79b9_7f4a_7c15);
        let pm = sc.yield_pm;
        barter_integration::channel::verif::set_spurious_yield(Some(Box::new(move || hr.chance(pm, 1000))));
    } else {
        barter_integration::channel::verif::set_spurious_yield(None);
    }
    barter::engine::clock::verif::set_wall_clock(Some(virtual_wall_h));
    let timeout = sc.timeout_ms;
    let out = rt.block_on(async {
        let start = tokio::time::Instant::now();
        HSTART.with(|s| s.set(Some(start)));
        let now_ms = move || start.elapsed().as_millis() as u64;

        // ---- exchange side: one scripted client per exchange --------------------------------
        let n_drops: Vec<usize> = (0..w.n_ex)
            .map(|e| sc.steps.iter().filter(|s| matches!(s.kind, KindH::AcctDrop { ex } if ex == e)).count())
            .collect();
        let mut builder = ExecutionBuilder::new(&w.instruments);
        type RunFut = std::pin::Pin<Box<dyn std::future::Future<Output = ()> + Send + 'static>>;
        type InitFut = std::pin::Pin<Box<dyn std::future::Future<Output = Result<(RunFut, RunFut), barter::execution::error::ExecutionError>> + Send>>;
        let mut hand_txs: Vec<(ExchangeId, Option<barter_integration::channel::UnboundedTx<barter::execution::request::ExecutionRequest>>)> = Vec::new();
        let mut hand_inits: Vec<InitFut> = Vec::new();
        let hand_channel = barter_integration::channel::Channel::<AccountStreamEvent>::new();
        let mut clients: Vec<SimClient> = Vec::new();
        let mut conns: Vec<VecDeque<tokio::sync::mpsc::UnboundedSender<UnindexedAccountEvent>>> = Vec::new();
        for ex in w.instruments.exchanges().iter() {
            let e = ex.key.0;
            let mut b = HashMap::new();
            for (k, o) in sc.ords.iter().enumerate() {
                if w.ord_ok(sc, k) && w.inst_ex[o.inst] == e {
                    b.insert(cid(k), o.open);
                    b.insert(format!("x:{}", cid(k)), o.cancel);
                }
            }
            let listed = if sc.snapshot_lists_instruments {
                w.instruments
                    .instruments()
                    .iter()
                    .filter(|i| i.value.exchange.key.0 == e)
                    .map(|i| barter_execution::InstrumentAccountSnapshot { instrument: i.value.name_exchange.clone(), orders: vec![] })
                    .collect()
            } else {
                vec![]
            };
            let (client, tx) = SimClient::new_client(
                ex.value,
                b,
                UnindexedAccountSnapshot { exchange: ex.value, balances: vec![], instruments: listed },
            );
            let mut q = VecDeque::from([tx]);
            let poison_len = sc.poison_len.max(1) as u64;
            for d in 0..n_drops[e] {
                q.push_back(client.add_connection());
                if sc.poisoned_resnapshot {
                    // call 1 is the initial snapshot; each drop costs poison_len + 1 calls, all but the
                    // last poisoned; every failed attempt uses up a connection
                    for j in 0..poison_len {
                        client.0.poisoned_snapshot_calls.lock().unwrap().push(2 + (poison_len + 1) * d as u64 + j);
                        q.push_back(client.add_connection());
                    }
                }
            }
            let t = Duration::from_millis(timeout);
            if sc.generic_client {
                if sc.untraded == Some(e) {
                    hand_txs.push((ex.value, None));
                } else {
                    use barter_data::streams::reconnect::stream::ReconnectingStream;
                    use futures::FutureExt;
                    let map = barter_execution::map::generate_execution_instrument_map(&w.instruments, ex.value)
                        .map_err(|e| format!("generate_execution_instrument_map failed: {e}"))?;
                    let (tx, rx) = barter_integration::channel::mpsc_unbounded();
                    hand_txs.push((ex.value, Some(tx)));
                    let merged_tx = hand_channel.tx.clone();
                    let init = barter::execution::manager::ExecutionManager::init(
                        rx.into_stream(),
                        t,
                        Arc::new(client.clone()),
                        barter_execution::indexer::AccountEventIndexer::new(Arc::new(map)),
                        barter_data::streams::consumer::STREAM_RECONNECTION_POLICY,
                    )
                    .map(|r| {
                        r.map(|(manager, account_stream)| {
                            let a: RunFut = Box::pin(manager.run());
                            let b: RunFut = Box::pin(account_stream.forward_to(merged_tx));
                            (a, b)
                        })
                    });
                    hand_inits.push(Box::pin(init));
                }
            } else if sc.untraded != Some(e) {
                let added = match EXS.iter().position(|x| *x == ex.value).unwrap_or(0) {
                    0 => builder.add_live::<SimClientN<0>>(client.clone(), t),
                    1 => builder.add_live::<SimClientN<1>>(client.clone(), t),
                    2 => builder.add_live::<SimClientN<2>>(client.clone(), t),
                    _ => builder.add_live::<SimClientN<3>>(client.clone(), t),
                };
                builder = added.map_err(|e| format!("ExecutionBuilder::add_live failed: {e}"))?;
            }
            clients.push(client);
            conns.push(q);
        }
        let execution = if sc.generic_client {
            barter::execution::builder::ExecutionBuild {
                execution_tx_map: hand_txs.into_iter().collect(),
                account_channel: hand_channel,
                futures: barter::execution::builder::ExecutionBuildFutures { mock_exchange_run_futures: vec![], execution_init_futures: hand_inits },
            }
        } else {
            drop(hand_channel);
            builder.build()
        };

        // ---- engine -------------------------------------------------------------------------
        let state = build_state(
            &w.instruments,
            if sc.trading_enabled_at_start { TradingState::Enabled } else { TradingState::Disabled },
            &[],
        );
        let script = Arc::new(Mutex::new(StrategyScript::default()));
        {
            let mut s = script.lock().unwrap();
            for b in &sc.batches {
                let cancels = b.cancels.iter().filter(|o| w.ord_ok(sc, **o)).map(|o| w.cancel_req(sc, *o)).collect();
                let opens = b.opens.iter().filter(|o| w.ord_ok(sc, **o)).map(|o| w.open_req(sc, *o)).collect();
                s.queue.push_back((b.at_call, cancels, opens));
            }
            s.refuse_open_cids = sc.refuse_opens.iter().map(|o| cid(*o)).collect();
            s.refuse_cancel_cids = sc.refuse_cancels.iter().map(|o| cid(*o)).collect();
        }
        let engine: EngH = Engine::new(
            LiveClock,
            state,
            execution.execution_tx_map,
            SimStrategy { id: strategy_id(), script: script.clone() },
            SimRisk { script: script.clone() },
        );

        // ---- the real System ----------------------------------------------------------------
        let (mkt_tx, mkt_rx) = tokio::sync::mpsc::unbounded_channel::<MarketStreamEvent<InstrumentIndex, barter_data::event::DataKind>>();
        let build = SystemBuild::<EngH, Ev, _>::new(
            engine,
            EngineFeedMode::Stream,
            AuditMode::Enabled,
            UnboundedReceiverStream::new(mkt_rx),
            execution.account_channel,
            execution.futures,
        );
        let mut system = build.init().await.map_err(|e| format!("SystemBuild::init failed: {e}"))?;
        let audit = system.take_audit().ok_or("System built with AuditMode::Enabled has no audit stream")?;
        let snapshot = audit.snapshot;
        let mut updates = audit.updates;
        let collector = tokio::spawn(async move {
            let mut v: Vec<Tick> = Vec::new();
            while let Some(t) = updates.rx.recv().await {
                v.push(t);
            }
            v
        });

        if let Some((at, by)) = sc.jump {
            tokio::spawn(async move {
                tokio::time::sleep_until(start + Duration::from_millis(at)).await;
                tokio::time::advance(Duration::from_millis(by)).await;
            });
        }

        // ---- driver -------------------------------------------------------------------------
        let mut market_items_pushed = 0u64;
        let mut market_notices_pushed = vec![0u64; w.n_ex];
        let mut account_drops = vec![0u64; w.n_ex];
        let mut account_items_pushed = 0u64;
        let mut commands_pushed = 0u64;
        let mut cancel_filters: Vec<FilterB> = Vec::new();
        // per instrument: (fills pushed so far, their common side if they all had the same one)
        let mut trade_sides: Vec<(u32, Option<bool>)> = vec![(0, None); w.n_inst()];
        let mut close_filters: Vec<FilterB> = Vec::new();
        let mut trades_pushed: Vec<(usize, u64, String)> = Vec::new();
        let mut drop_instants: Vec<(usize, u64)> = Vec::new();
        let linked = |e: usize| sc.untraded != Some(e);
        for (k, st) in sc.steps.iter().enumerate() {
            tokio::time::sleep_until(start + Duration::from_millis(st.at_ms)).await;
            if system.engine.is_finished() {
                // the engine stopped on a fatal error: nothing can be pushed any more
                break;
            }
            let now = now_ms() as i64;
            match &st.kind {
                KindH::Market { inst, price, lag_ms } => {
                    if *inst >= w.n_inst() {
                        continue;
                    }
                    let ev = mk_public_trade(EXS[w.inst_ex[*inst]], *inst, now - *lag_ms as i64, *price as f64, &format!("m{k}"));
                    if mkt_tx.send(MarketStreamEvent::Item(ev)).is_ok() {
                        market_items_pushed += 1;
                    }
                }
                KindH::MarketReconnecting { ex } => {
                    if *ex >= w.n_ex {
                        continue;
                    }
                    if mkt_tx.send(MarketStreamEvent::Reconnecting(EXS[*ex])).is_ok() {
                        market_notices_pushed[*ex] += 1;
                    }
                }
                KindH::AcctOrder { ord, rep, lag_ms } => {
                    if !w.ord_ok(sc, *ord) {
                        continue;
                    }
                    let o = &sc.ords[*ord];
                    let e = w.inst_ex[o.inst];
                    if !linked(e) {
                        continue;
                    }
                    let ii = &w.instruments.instruments()[o.inst];
                    let t = ts(now - *lag_ms as i64);
                    let state = match rep {
                        RepH::Open { filled } => OrderState::active(Open {
                            id: OrderId::new(format!("s-{}", cid(*ord))),
                            time_exchange: t,
                            filled_quantity: dec((*filled).min(o.qty)),
                        }),
                        RepH::Cancelled => OrderState::inactive(Cancelled {
                            id: OrderId::new(format!("s-{}", cid(*ord))),
                            time_exchange: t,
                        }),
                        RepH::Expired => OrderState::expired(),
                    };
                    let ev = UnindexedAccountEvent {
                        exchange: ii.value.exchange.value,
                        kind: AccountEventKind::OrderSnapshot(Snapshot(Order {
                            key: OrderKey {
                                exchange: ii.value.exchange.value,
                                instrument: ii.value.name_exchange.clone(),
                                strategy: strategy_id(),
                                cid: ClientOrderId::new(cid(*ord)),
                            },
                            side: side_of(o.buy),
                            price: dec(100),
                            quantity: dec(o.qty),
                            kind: OrderKind::Limit,
                            time_in_force: TimeInForce::GoodUntilCancelled { post_only: false },
                            state,
                        })),
                    };
                    if conns[e].front().is_some_and(|tx| tx.send(ev).is_ok()) {
                        account_items_pushed += 1;
                    }
                }
                KindH::AcctBalance { asset, total, lag_ms } => {
                    let Some(a) = w.instruments.assets().get(*asset) else { continue };
                    let e = w.asset_ex[*asset];
                    if !linked(e) {
                        continue;
                    }
                    let ev = UnindexedAccountEvent {
                        exchange: a.value.exchange,
                        kind: AccountEventKind::BalanceSnapshot(Snapshot(AssetBalance {
                            asset: a.value.asset.name_exchange.clone(),
                            balance: Balance::new(dec(*total), dec(*total)),
                            time_exchange: ts(now - *lag_ms as i64),
                        })),
                    };
                    if conns[e].front().is_some_and(|tx| tx.send(ev).is_ok()) {
                        account_items_pushed += 1;
                    }
                }
                KindH::AcctTrade { inst, buy, qty, price, fee } => {
                    if *inst >= w.n_inst() || !linked(w.inst_ex[*inst]) {
                        continue;
                    }
                    // a fill report with quantity zero is only pushed while the instrument certainly
                    // holds a position on that side (every earlier fill had this side): a zero-quantity
                    // fill that *opens* a position makes the engine divide by zero later (DESIGN.md
                    // section 7, noted - no claimed property speaks about it)
                    if *qty == 0 && !(trade_sides[*inst].0 > 0 && trade_sides[*inst].1 == Some(*buy)) {
                        continue;
                    }
                    trade_sides[*inst].0 += 1;
                    if trade_sides[*inst].0 == 1 {
                        trade_sides[*inst].1 = Some(*buy);
                    } else if trade_sides[*inst].1 != Some(*buy) {
                        trade_sides[*inst].1 = None;
                    }
                    let e = w.inst_ex[*inst];
                    let ii = &w.instruments.instruments()[*inst];
                    let ev = UnindexedAccountEvent {
                        exchange: ii.value.exchange.value,
                        kind: AccountEventKind::Trade(barter_execution::trade::Trade {
                            id: barter_execution::trade::TradeId::new(format!("t{k}")),
                            order_id: OrderId::new(format!("ext{k}")),
                            instrument: ii.value.name_exchange.clone(),
                            strategy: strategy_id(),
                            time_exchange: ts(now),
                            side: side_of(*buy),
                            price: dec(*price),
                            quantity: dec(*qty),
                            fees: barter_execution::trade::AssetFees::quote_fees(dec(*fee)),
                        }),
                    };
                    if conns[e].front().is_some_and(|tx| tx.send(ev).is_ok()) {
                        account_items_pushed += 1;
                        trades_pushed.push((e, now as u64, format!("t{k}")));
                    }
                }
                KindH::AcctDrop { ex } => {
                    let poison_len = sc.poison_len.max(1) as usize;
                    if *ex >= w.n_ex || conns[*ex].len() < (if sc.poisoned_resnapshot { 2 + poison_len } else { 2 }) || !linked(*ex) {
                        continue;
                    }
                    conns[*ex].pop_front();
                    if sc.poisoned_resnapshot {
                        // (the connections taken by the failed re-initialisations are lost as well)
                        for _ in 0..poison_len {
                            conns[*ex].pop_front();
                        }

                    }
                    account_drops[*ex] += 1;
                    drop_instants.push((*ex, now as u64));
                }
                KindH::CmdOpen { ords } => {
                    let v: Vec<_> = ords.iter().filter(|o| w.ord_ok(sc, **o)).map(|o| w.open_req(sc, *o)).collect();
                    if v.is_empty() {
                        continue;
                    }
                    commands_pushed += 1;
                    if v.len() == 1 {
                        system.send_open_requests(OneOrMany::One(v.into_iter().next().unwrap()));
                    } else {
                        system.send_open_requests(OneOrMany::Many(v));
                    }
                }
                KindH::CmdCancel { ords } => {
                    let v: Vec<_> = ords.iter().filter(|o| w.ord_ok(sc, **o)).map(|o| w.cancel_req(sc, *o)).collect();
                    if v.is_empty() {
                        continue;
                    }
                    commands_pushed += 1;
                    if v.len() == 1 {
                        system.send_cancel_requests(OneOrMany::One(v.into_iter().next().unwrap()));
                    } else {
                        system.send_cancel_requests(OneOrMany::Many(v));
                    }
                }
                KindH::CmdCancelAll => {
                    commands_pushed += 1;
                    cancel_filters.push(FilterB::None);
                    system.cancel_orders(InstrumentFilter::None);
                }
                KindH::CmdClosePositions => {
                    commands_pushed += 1;
                    close_filters.push(FilterB::None);
                    system.close_positions(InstrumentFilter::None);
                }
                KindH::CmdCancelFiltered { filter } => {
                    if !w.filter_ok(filter) {
                        continue;
                    }
                    commands_pushed += 1;
                    cancel_filters.push(filter.clone());
                    system.cancel_orders(w.filter(filter));
                }
                KindH::CmdCloseFiltered { filter } => {
                    if !w.filter_ok(filter) {
                        continue;
                    }
                    commands_pushed += 1;
                    close_filters.push(filter.clone());
                    system.close_positions(w.filter(filter));
                }
                KindH::Trading { enabled } => {
                    commands_pushed += 1;
                    system.trading_state(if *enabled { TradingState::Enabled } else { TradingState::Disabled });
                }
            }
        }

        // ---- faults have stopped: let everything outstanding resolve --------------------------
        let max_delay = sc
            .ords
            .iter()
            .flat_map(|o| [o.open.delay_ms, o.cancel.delay_ms])
            .flatten()
            .max()
            .unwrap_or(0);
        tokio::time::sleep(Duration::from_millis(2 * (timeout + max_delay) + 1_000)).await;
        if sc.poisoned_resnapshot {
            // every dropped account connection is followed by poison_len failing re-initialisations,
            // each behind its backoff wait (125 ms doubling up to 60 s); connections dropped while the
            // stream is still backing off are only found closed once it gets to them
            let ladder: u64 = (0..sc.poison_len.max(1) as u32).map(|k| (125u64 << k.min(20)).min(60_000)).sum();
            let drops: u64 = account_drops.iter().sum();
            tokio::time::sleep(Duration::from_millis(drops * (ladder + 10))).await;
        }
        if sc.jump.is_some() {
            tokio::time::sleep(Duration::from_millis(2 * (timeout + max_delay) + 1_000)).await;
        }
        let end_ms = now_ms();
        let engine_died = system.engine.is_finished();
        let (engine, _shutdown_audit) = if engine_died {
            // System::shutdown would push a Shutdown into a feed nobody reads any more
            let barter::system::System { engine, mut handles, .. } = system;
            let r = engine.await.map_err(|e| format!("engine task failed: {}", join_err(e)))?;
            tokio::time::timeout(Duration::from_secs(3600), barter::shutdown::AsyncShutdown::shutdown(&mut handles))
                .await
                .map_err(|_| "execution components did not stop within 1 h of virtual time".to_string())?
                .map_err(|e| format!("stopping the execution components failed: {}", join_err(e)))?;
            r
        } else {
            match tokio::time::timeout(Duration::from_secs(3600), system.shutdown()).await {
                Err(_) => return Err("System::shutdown did not finish within 1 h of virtual time".to_string()),
                Ok(Err(e)) => return Err(format!("System::shutdown failed: {}", join_err(e))),
                Ok(Ok(x)) => x,
            }
        };
        let ticks = tokio::time::timeout(Duration::from_secs(3600), collector)
            .await
            .map_err(|_| "audit channel not closed after the engine stopped".to_string())?
            .map_err(|e| format!("audit collector failed: {}", join_err(e)))?;
        let received = clients.iter().map(|c| c.0.received.lock().unwrap().clone()).collect();
        let s = script.lock().unwrap();
        Ok(RunOut {
            snapshot,
            ticks,
            final_state: engine.state,
            received,
            disconnects: s.disconnects.clone(),
            algo_calls: s.algo_calls,
            batches_released: s.released,
            market_items_pushed,
            market_notices_pushed,
            account_drops,
            account_items_pushed,
            commands_pushed,
            cancel_filters,
            close_filters,
            trades_pushed,
            drop_instants,
            end_ms,
            engine_died,
        })
    });
    barter_integration::channel::verif::set_spurious_yield(None);
    barter::engine::clock::verif::set_wall_clock(None);
    HSTART.with(|s| s.set(None));
    drop(rt);
    out
}

/// A task failure without the runtime's task id (which differs between executions).
fn join_err(e: tokio::task::JoinError) -> String {
    if e.is_cancelled() {
        return "task cancelled".to_string();
    }
    match e.try_into_panic() {
        Ok(p) => {
            let msg = p.downcast_ref::<String>().cloned().or_else(|| p.downcast_ref::<&str>().map(|s| s.to_string())).unwrap_or_default();
            format!("task panicked: {msg}")
        }
        Err(_) => "task failed".to_string(),
    }
}

/// Possible model states of one order after a prefix of the audited history.
#[derive(Clone, Debug, PartialEq)]
enum Poss {
    Set(Vec<M>),
    /// the statement leaves the exact state open (tracked -> tracked)
    Loose,
}

fn poss_step(p: &Poss, op: &OpA, qty: i64) -> Poss {
    match p {
        Poss::Loose => {
            // only reports that end tracking regardless of the current state pin the state down
            let ends = |m: &M| matches!(expect_op(m, op, qty), Exp::OneOf(v) if v == vec![M::Untracked]);
            let probe = OD { id: 0, t: i64::MIN / 2, filled: 0 };
            if ends(&M::Untracked) && ends(&M::InFlightOpen) && ends(&M::Open(probe.clone())) && ends(&M::InFlightCancel(Some(probe))) {
                Poss::Set(vec![M::Untracked])
            } else {
                Poss::Loose
            }
        }
        Poss::Set(ms) => {
            let mut out: Vec<M> = Vec::new();
            for m in ms {
                match expect_op(m, op, qty) {
                    Exp::OneOf(v) => {
                        for x in v {
                            if !out.contains(&x) {
                                out.push(x);
                            }
                        }
                    }
                    Exp::KeepTracked | Exp::Tracked => return Poss::Loose,
                }
            }
            Poss::Set(out)
        }
    }
}

fn od_of_open(o: &Open) -> OD {
    let id = if o.id.0.starts_with("x-") {
        0
    } else if o.id.0.starts_with("s-") {
        1
    } else {
        255
    };
    OD { id, t: ms_of(o.time_exchange), filled: o.filled_quantity.to_i64().unwrap_or(-1) }
}

fn view_h(state: &St, inst: usize, c: &str) -> M {
    match state.instruments.instrument_index(&InstrumentIndex(inst)).orders.0.get(&ClientOrderId::new(c)) {
        None => M::Untracked,
        Some(o) => match &o.state {
            ActiveOrderState::OpenInFlight(_) => M::InFlightOpen,
            ActiveOrderState::Open(open) => M::Open(od_of_open(open)),
            ActiveOrderState::CancelInFlight(c) => M::InFlightCancel(c.order.as_ref().map(od_of_open)),
        },
    }
}

/// In-flight markers set aside (what a replica can know).
fn data_of(m: &M) -> Option<OD> {
    m.data().cloned()
}

fn is_open_response(o: &OrderState) -> bool {
    match o {
        OrderState::Active(ActiveOrderState::Open(op)) => op.id.0.starts_with("x-"),
        OrderState::Inactive(InactiveOrderState::OpenFailed(_)) => true,
        OrderState::Inactive(InactiveOrderState::FullyFilled) => true,
        _ => false,
    }
}

impl ScenarioH {
    /// An outage that outlasts the backoff ladder takes about four minutes of virtual time: whatever
    /// the scenario does after a dropped account connection is moved behind it.
    fn shifted_for_long_outage(mut self) -> Self {
        if self.poisoned_resnapshot && self.poison_len >= 10 {
            let mut shift = 0u64;
            for st in self.steps.iter_mut() {
                st.at_ms += shift;
                if matches!(st.kind, KindH::AcctDrop { .. }) {
                    shift += 300_000;
                }
            }
        }
        self
    }
}

impl Sim for SimH {
    type Scenario = ScenarioH;

    fn name(&self) -> &'static str {
        "H:whole-system(virtual time)"
    }
    fn property(&self) -> &'static str {
        match self.prop {
            PropH::C01 => "C01",
            PropH::C03 => "C03",
            PropH::C07 => "C07",
            PropH::C10 => "C10",
            PropH::C14 => "C14",
            PropH::C09 => "C09",
            PropH::C15 => "C15",
            PropH::C19 => "C19",
            PropH::C12 => "C12",
        }
    }
    fn sub_batches(&self) -> Vec<&'static str> {
        vec!["whole_system_quiet_network", "whole_system_faulty_network"]
    }
    fn default_runs(&self) -> (u64, u64) {
        (20_000, 1_000_000)
    }

    fn plan(&self, rng: &mut Rng, sub: usize) -> ScenarioH {
        let faulty = sub == 1;
        let n_ex = *rng.pick(&[1usize, 1, 2, 2, 2, 3]);
        let inst_per_ex: Vec<usize> = (0..n_ex).map(|_| *rng.pick(&[1usize, 2, 2, 3])).collect();
        let n_inst: usize = inst_per_ex.iter().sum();
        let n_assets = 3 * n_ex;
        let timeout_ms = *rng.pick(&[20u64, 50, 200]);
        let n_ord = 1 + rng.usize(8);
        let mut behav = |rng: &mut Rng| -> Behav {
            let delay_ms = if !faulty {
                Some(rng.below(timeout_ms / 2))
            } else {
                match rng.below(10) {
                    0 => None,
                    1 => Some(timeout_ms + 1 + rng.below(2 * timeout_ms)),
                    2 => Some(timeout_ms),
                    3 => Some(timeout_ms - 1),
                    _ => Some(rng.below(timeout_ms)),
                }
            };
            Behav {
                delay_ms,
                resp: *rng.pick(&[Resp::OkOpen, Resp::OkOpen, Resp::OkOpen, Resp::OkFull, Resp::Rejected, Resp::Connectivity]),
            }
        };
        let ords: Vec<OrdH> = (0..n_ord)
            .map(|_| OrdH {
                inst: rng.usize(n_inst),
                buy: rng.chance(1, 2),
                qty: rng.range(2, 3),
                open: behav(rng),
                cancel: behav(rng),
            })
            .collect();
        // every order is opened at most once: by a command or by a strategy batch
        let mut unopened: Vec<usize> = (0..n_ord).collect();
        rng.shuffle(&mut unopened);
        let n_steps = 3 + rng.usize(22);
        let mut steps: Vec<StepH> = Vec::new();
        let mut t = 0u64;
        let mut pick_ords = |rng: &mut Rng| -> Vec<usize> {
            let n = 1 + rng.usize(3.min(n_ord));
            (0..n).map(|_| rng.usize(n_ord)).collect()
        };
        for _ in 0..n_steps {
            t += match rng.below(6) {
                0 => 0,
                1 => 1,
                2 => timeout_ms,
                _ => rng.below(2 * timeout_ms),
            };
            let r = rng.below(100);
            let kind = if r < 34 {
                KindH::Market { inst: rng.usize(n_inst), price: rng.range(50, 150), lag_ms: if faulty { *rng.pick(&[0u64, 0, 0, 1, 5, 50, 500]) } else { 0 } }
            } else if r < 54 {
                KindH::AcctOrder {
                    ord: rng.usize(n_ord),
                    rep: match rng.below(6) {
                        0 => RepH::Cancelled,
                        1 => RepH::Expired,
                        2 => RepH::Open { filled: 3 },
                        _ => RepH::Open { filled: rng.range(0, 1) },
                    },
                    lag_ms: if faulty { *rng.pick(&[0u64, 0, 1, 5, 50, 500]) } else { 0 },
                }
            } else if r < 66 {
                let n = (1 + rng.usize(2)).min(unopened.len());
                if n == 0 {
                    KindH::Market { inst: rng.usize(n_inst), price: rng.range(50, 150), lag_ms: if faulty { *rng.pick(&[0u64, 0, 0, 1, 5, 50, 500]) } else { 0 } }
                } else {
                    let mut v: Vec<usize> = unopened.drain(..n).collect();
                    if faulty && rng.chance(1, 12) {
                        // an operator repeats a request for an order id already used
                        v.push(rng.usize(n_ord));
                    }
                    KindH::CmdOpen { ords: v }
                }
            } else if r < 74 {
                KindH::CmdCancel { ords: pick_ords(rng) }
            } else if r < 77 {
                let f = match rng.below(5) {
                    0 | 1 => FilterB::None,
                    2 => FilterB::Exchanges(vec![rng.usize(n_ex)]),
                    3 => FilterB::Instruments((0..rng.usize(3)).map(|_| rng.usize(n_inst)).collect()),
                    _ => FilterB::UnderlyingsOf(vec![rng.usize(n_inst)]),
                };
                if f == FilterB::None { KindH::CmdCancelAll } else { KindH::CmdCancelFiltered { filter: f } }
            } else if r < 79 {
                let f = match rng.below(5) {
                    0 | 1 => FilterB::None,
                    2 => FilterB::Exchanges(vec![rng.usize(n_ex)]),
                    3 => FilterB::Instruments(vec![rng.usize(n_inst)]),
                    _ => FilterB::UnderlyingsOf(vec![rng.usize(n_inst)]),
                };
                if f == FilterB::None { KindH::CmdClosePositions } else { KindH::CmdCloseFiltered { filter: f } }
            } else if r < 84 {
                KindH::Trading { enabled: rng.chance(1, 2) }
            } else if r < 87 {
                KindH::AcctTrade {
                    inst: rng.usize(n_inst),
                    buy: rng.chance(1, 2),
                    // (audit runs: now and then a fill report with quantity zero)
                    qty: if self.prop == PropH::C10 && rng.chance(1, 10) { 0 } else { rng.range(1, 3) },
                    price: rng.range(50, 150),
                    // (negative = maker rebate)
                    fee: rng.range(-1, 2),
                }
            } else if r < 90 {
                KindH::AcctBalance {
                    asset: rng.usize(n_assets),
                    total: rng.range(0, 1000),
                    lag_ms: if faulty { *rng.pick(&[0u64, 0, 5, 500]) } else { 0 },
                }
            } else if r < 94 {
                if faulty { KindH::AcctDrop { ex: rng.usize(n_ex) } } else { KindH::Market { inst: rng.usize(n_inst), price: 100, lag_ms: 0 } }
            } else if faulty {
                KindH::MarketReconnecting { ex: rng.usize(n_ex) }
            } else {
                KindH::Market { inst: rng.usize(n_inst), price: 101, lag_ms: 0 }
            };
            steps.push(StepH { at_ms: t, kind });
        }
        let n_batches = rng.usize(5);
        let mut batches = Vec::new();
        let mut at_call = 0u64;
        for _ in 0..n_batches {
            at_call += 1 + rng.below(4);
            let n_open = rng.usize(3).min(unopened.len());
            let opens: Vec<usize> = unopened.drain(..n_open).collect();
            let cancels = if rng.chance(1, 2) { pick_ords(rng) } else { vec![] };
            batches.push(BatchH { at_call, cancels, opens });
        }
        let refuse_opens = if rng.chance(1, 3) { vec![rng.usize(n_ord)] } else { vec![] };
        let refuse_cancels = if rng.chance(1, 4) { vec![rng.usize(n_ord)] } else { vec![] };
        // drawn here so that earlier draws stay what they were
        let tokio_seed = rng.next_u64();
        let trading_enabled_at_start = rng.chance(3, 4);
        ScenarioH {
            tokio_seed,
            timeout_ms,
            inst_per_ex,
            trading_enabled_at_start,
            ords,
            steps,
            batches,
            refuse_opens,
            refuse_cancels,
            jump: if faulty && rng.chance(1, 6) {
                Some((rng.below(t + timeout_ms + 1), *rng.pick(&[1u64, timeout_ms / 2 + 1, timeout_ms, 2 * timeout_ms, 1000])))
            } else {
                None
            },
            yield_pm: if faulty { *rng.pick(&[0u64, 0, 50, 300]) } else { 0 },
            untraded: if faulty && n_ex >= 2 && rng.chance(1, 4) { Some(rng.usize(n_ex)) } else { None },
            snapshot_lists_instruments: rng.chance(1, 2),
            generic_client: rng.chance(1, 3),
            derivs: self.prop == PropH::C15 && rng.chance(1, 2),
            poisoned_resnapshot: faulty && rng.chance(1, 4),
            poison_len: *rng.pick(&[1u8, 1, 1, 2, 12]),
        }
        .shifted_for_long_outage()
    }

    fn execute(&self, sc: &ScenarioH, ctx: &ExecCtx<'_>) -> Outcome {
        let pid = self.property();
        let mut log = Log::new(ctx.keep_log);
        let mut stats = RunStats::default();
        let mut violation: Option<Violation> = None;
        let w = WorldH::new(sc);
        let timeout = sc.timeout_ms;

        macro_rules! fail {
            ($l:lifetime, $rule:expr, $step:expr, $($arg:tt)*) => {{
                violation = report(ctx, &mut stats, pid, $rule, $step, format!($($arg)*), None);
                if violation.is_some() {
                    break $l;
                }
            }};
        }
        macro_rules! fail_key {
            ($l:lifetime, $rule:expr, $step:expr, $key:expr, $($arg:tt)*) => {{
                violation = report(ctx, &mut stats, pid, $rule, $step, format!($($arg)*), $key);
                if violation.is_some() {
                    break $l;
                }
            }};
        }

        let run = run_system(sc, &w);
        stats.steps = sc.steps.len() as u64;

        #[allow(clippy::never_loop)]
        'chk: loop {
            let out = match &run {
                Err(e) => {
                    fail!('chk, "S0_system_lifecycle", 0, "{e}");
                    break 'chk;
                }
                Ok(o) => o,
            };
            stats.sim_time_ms = out.end_ms;
            for (k, t) in out.ticks.iter().enumerate() {
                // (error values embed channel addresses: log the event and the decoded outputs only)
                let d = decode(&t.event);
                let ev = match &t.event {
                    EngineAudit::FeedEnded => "FeedEnded".to_string(),
                    EngineAudit::Process(pa) => format!("{:?}", pa.event),
                };
                log.line(|| format!(
                    "tick {k} seq {} t={}: {ev} | cmd {:?} | algo {:?} refused {:?} | disconnects {:?} | errors {} terminal {}",
                    t.context.sequence.value(),
                    ms_of(t.context.time),
                    d.cmd.as_ref().map(|s| (&s.sent, &s.err_recoverable, &s.err_unrecoverable)),
                    d.algo.as_ref().map(|s| (&s.sent, &s.err_recoverable, &s.err_unrecoverable)),
                    d.algo_refused,
                    d.disconnects,
                    d.n_errors,
                    d.terminal
                ));
            }
            for (e, r) in out.received.iter().enumerate() {
                for x in r {
                    log.line(|| format!("client {e} received {x:?}"));
                }
            }
            // ---- fault / probe accounting --------------------------------------------------
            if sc.jump.is_some() {
                stats.fault("clock_jump");
            }
            if sc.yield_pm > 0 {
                stats.fault("spurious_channel_yield");
            }
            if sc.untraded.is_some() {
                stats.fault("exchange_without_execution_link");
            }
            if sc.generic_client {
                stats.probe("execution_wired_for_generic_client");
            }
            if sc.poisoned_resnapshot && out.account_drops.iter().any(|d| *d > 0) {
                stats.fault("account_reinitialisation_fails_once");
                if sc.poison_len >= 10 {
                    stats.fault("account_outage_outlasts_backoff_ladder");
                }
            }
            if out.engine_died {
                stats.probe("engine_stopped_on_fatal_error");
            }
            for d in &out.account_drops {
                for _ in 0..*d {
                    stats.fault("account_connection_dropped");
                }
            }
            for d in &out.market_notices_pushed {
                for _ in 0..*d {
                    stats.fault("market_stream_reconnecting");
                }
            }
            let mut late = 0;
            for r in out.received.iter().flatten() {
                let o = ord_of_cid(&r.cid).and_then(|k| sc.ords.get(k));
                if let Some(o) = o {
                    let b = if r.open { o.open } else { o.cancel };
                    match b.delay_ms {
                        None => stats.fault("client_never_answers"),
                        Some(d) if d >= timeout => {
                            late += 1;
                            stats.fault("client_answers_at_or_after_timeout")
                        }
                        _ => {}
                    }
                    if matches!(b.resp, Resp::Rejected | Resp::Connectivity) {
                        stats.fault("client_error_response");
                    }
                }
            }
            let _ = late;
            for s in &sc.steps {
                if let KindH::AcctOrder { lag_ms, .. } | KindH::AcctBalance { lag_ms, .. } = &s.kind {
                    if *lag_ms > 0 {
                        stats.fault("account_report_lagging");
                    }
                }
                if let KindH::Market { lag_ms, .. } = &s.kind {
                    if *lag_ms > 0 {
                        stats.fault("market_item_lagging");
                    }
                }
            }

            // ---- decode the audited history ---------------------------------------------------
            // per tick: the input event, requests reported as sent / failed / refused
            struct TickInfo {
                sent: Vec<Req>,
                errored: Vec<Req>,
                algo_ran: bool,
                disconnects: Vec<(&'static str, ExchangeId)>,
                n_errors: usize,
            }
            let mut infos: Vec<TickInfo> = Vec::new();
            for t in &out.ticks {
                let d = decode(&t.event);
                let mut sent = Vec::new();
                let mut errored = Vec::new();
                for set in [d.cmd.as_ref(), d.algo.as_ref()].into_iter().flatten() {
                    sent.extend(set.sent.iter().cloned());
                    errored.extend(set.err_recoverable.iter().cloned());
                    errored.extend(set.err_unrecoverable.iter().cloned());
                }
                infos.push(TickInfo { sent, errored, algo_ran: d.algo.is_some(), disconnects: d.disconnects.clone(), n_errors: d.n_errors });
            }
            // What each client received, as requests; and the part of it no audit record mentions.
            // When strategy-generated requests hit a fatal delivery error the engine's record carries
            // only the errors (no per-request output): the batch of that final record is "hidden".
            let got_reqs: Vec<Vec<Req>> = (0..w.n_ex)
                .map(|e| {
                    out.received[e]
                        .iter()
                        .map(|r| Req {
                            open: r.open,
                            ex: e,
                            inst: w
                                .instruments
                                .instruments()
                                .iter()
                                .position(|i| i.value.exchange.key.0 == e && i.value.name_exchange.name().as_str() == r.instrument)
                                .unwrap_or(usize::MAX),
                            cid: r.cid.clone(),
                            detail: String::new(),
                        })
                        .collect()
                })
                .collect();
            let hidden_allowed = out.engine_died
                && out.ticks.last().is_some_and(|t| t.event.is_terminal())
                && infos.last().is_some_and(|i| i.n_errors > 0 && !i.algo_ran);
            let mut hidden: Vec<Req> = Vec::new();
            for e in 0..w.n_ex {
                let n_sent = infos.iter().flat_map(|i| i.sent.iter()).filter(|r| r.ex == e).count();
                if hidden_allowed && got_reqs[e].len() > n_sent {
                    hidden.extend(got_reqs[e][n_sent..].iter().cloned());
                }
            }
            log.line(|| format!("engine stopped on fatal error: {}; delivered but in no audit record: {:?}", out.engine_died, hidden));
            if !hidden.is_empty() {
                stats.probe("strategy_batch_hidden_by_fatal_record");
            }
            for (k, t) in out.ticks.iter().enumerate() {
                let tag = match &t.event {
                    EngineAudit::FeedEnded => "feed-ended".to_string(),
                    EngineAudit::Process(pa) => match &pa.event {
                        EngineEvent::Shutdown(_) => "shutdown".into(),
                        EngineEvent::Command(_) => "cmd".into(),
                        EngineEvent::TradingStateUpdate(_) => "trading".into(),
                        EngineEvent::Market(MarketStreamEvent::Item(_)) => "mkt".into(),
                        EngineEvent::Market(MarketStreamEvent::Reconnecting(_)) => "mkt-rc".into(),
                        EngineEvent::Account(AccountStreamEvent::Reconnecting(_)) => "acc-rc".into(),
                        EngineEvent::Account(AccountStreamEvent::Item(ev)) => match &ev.kind {
                            AccountEventKind::Snapshot(_) => "acc-snap".into(),
                            AccountEventKind::BalanceSnapshot(_) => "acc-bal".into(),
                            AccountEventKind::OrderSnapshot(s) => {
                                if is_open_response(&s.0.state) { "resp-open".to_string() } else { "acc-ord".to_string() }
                            }
                            AccountEventKind::OrderCancelled(_) => "resp-cancel".into(),
                            AccountEventKind::Trade(_) => "acc-trade".into(),
                        },
                    },
                };
                log.sig(&tag);
                log.sig_u(infos[k].sent.len() as u64);
            }

            // ================================================================================
            // C10: the audit stream of the real System
            // ================================================================================
            if self.prop == PropH::C10 {
                let seq0 = out.snapshot.context.sequence.value();
                for (k, t) in out.ticks.iter().enumerate() {
                    if t.context.sequence.value() != seq0 + 1 + k as u64 {
                        fail!('chk, "A1_sequence", k, "audit record {k} carries sequence {}, expected {}", t.context.sequence.value(), seq0 + 1 + k as u64);
                    }
                    let last = k + 1 == out.ticks.len();
                    if t.event.is_terminal() != last {
                        fail!('chk, "A1_terminal_tick", k, "audit record {k} of {} terminal={} (only the last one may, and must, be terminal)", out.ticks.len(), t.event.is_terminal());
                    }
                }
                if out.ticks.is_empty() {
                    fail!('chk, "A1_terminal_tick", 0, "the audit stream carries no record at all (not even the shutdown)");
                }
                // exactly one record per event pushed into the system
                let mut n_mkt = 0u64;
                let mut n_mkt_rc = 0u64;
                let mut n_cmd = 0u64;
                let mut n_acc_stream = 0u64;
                for t in &out.ticks {
                    if let EngineAudit::Process(pa) = &t.event {
                        match &pa.event {
                            EngineEvent::Market(MarketStreamEvent::Item(_)) => n_mkt += 1,
                            EngineEvent::Market(MarketStreamEvent::Reconnecting(_)) => n_mkt_rc += 1,
                            EngineEvent::Command(_) | EngineEvent::TradingStateUpdate(_) => n_cmd += 1,
                            EngineEvent::Account(AccountStreamEvent::Item(ev)) => match &ev.kind {
                                AccountEventKind::BalanceSnapshot(_) | AccountEventKind::Trade(_) => n_acc_stream += 1,
                                AccountEventKind::OrderSnapshot(s) if !is_open_response(&s.0.state) => n_acc_stream += 1,
                                _ => {}
                            },
                            _ => {}
                        }
                    }
                }
                let pushed_rc: u64 = out.market_notices_pushed.iter().sum();
                let counts_ok = if out.engine_died {
                    // events pushed after (or at the instant of) the fatal error are never processed
                    n_mkt <= out.market_items_pushed && n_mkt_rc <= pushed_rc && n_cmd <= out.commands_pushed
                } else {
                    n_mkt == out.market_items_pushed && n_mkt_rc == pushed_rc && n_cmd == out.commands_pushed
                };
                if !counts_ok {
                    fail!('chk, "A1_one_record_per_event", 0, "pushed {} market items / {} market notices / {} commands, audit stream records {} / {} / {}", out.market_items_pushed, pushed_rc, out.commands_pushed, n_mkt, n_mkt_rc, n_cmd);
                }
                // account-stream items pushed into a connection that is dropped before the manager
                // reads them may be lost with the connection; without drops none may be
                if !out.engine_died && out.account_drops.iter().all(|d| *d == 0) && n_acc_stream != out.account_items_pushed {
                    fail!('chk, "A1_one_record_per_event", 0, "pushed {} account-stream items, audit stream records {}", out.account_items_pushed, n_acc_stream);
                }
                // replica
                let queue: Rc<RefCell<VecDeque<Tick>>> = Rc::new(RefCell::new(VecDeque::new()));
                let q2 = queue.clone();
                let updates = std::iter::from_fn(move || q2.borrow_mut().pop_front());
                let mut replica = StateReplicaManager::new(out.snapshot.clone(), updates);
                // The statement's order clause presumes client order ids are not reused: an open
                // request for an id that is already tracked (an operator repeating a request, or an
                // id the exchange reported before the engine used it) replaces exchange data by an
                // in-flight marker in the engine only. Such ids are set aside in the comparison.
                let mut reused: Vec<(usize, String)> = Vec::new();
                for (k, t) in out.ticks.iter().enumerate() {
                    queue.borrow_mut().push_back(t.clone());
                    if let Err(e) = replica.run::<u64, ExchangeId>() {
                        fail!('chk, "A2_replica_rejected_contiguous_tick", k, "replica rejected in-order record {k}: {e}");
                    }
                    let last = k + 1 == out.ticks.len();
                    for r in infos[k].sent.iter().chain(hidden.iter().filter(|_| last)).filter(|r| r.open) {
                        if r.inst < w.n_inst() && view_h(replica.replica_engine_state(), r.inst, &r.cid) != M::Untracked {
                            reused.push((r.inst, r.cid.clone()));
                            stats.probe("client_order_id_reused_set_aside");
                        }
                    }
                }
                stats.probe("replica_followed_whole_system_run");
                let mut eng = out.final_state.clone();
                let mut rep = replica.replica_engine_state().clone();
                for (inst, c) in &reused {
                    for s in [&mut eng, &mut rep] {
                        s.instruments.instrument_index_mut(&InstrumentIndex(*inst)).orders.0.remove(&ClientOrderId::new(c.as_str()));
                    }
                }
                if let Some(d) = diff_states(&eng, &rep) {
                    fail!('chk, "A2_replica_diverged", out.ticks.len(), "after the whole run the replica differs from the engine returned by System::shutdown: {d}");
                }
            }

            // ================================================================================
            // C03: sent <=> delivered once, to the right client, in order
            // ================================================================================
            if self.prop == PropH::C03 {
                let mut trading = sc.trading_enabled_at_start;
                for (k, t) in out.ticks.iter().enumerate() {
                    if let EngineAudit::Process(pa) = &t.event {
                        if let EngineEvent::TradingStateUpdate(ts_) = &pa.event {
                            trading = *ts_ == TradingState::Enabled;
                        }
                        if !trading && infos[k].algo_ran {
                            fail!('chk, "R6_algo_while_disabled", k, "strategy-generated requests reported in audit record {k} while algorithmic trading is disabled");
                        }
                        if !trading && matches!(&pa.event, EngineEvent::Command(_)) && !infos[k].sent.is_empty() {
                            stats.probe("command_actioned_while_trading_disabled");
                        }
                    }
                    for r in &infos[k].errored {
                        if Some(r.ex) != sc.untraded {
                            fail!('chk, "R2_error_on_healthy_link", k, "audit record {k} reports a failed delivery {:?} although the execution link of exchange {} is up", r, r.ex);
                        }
                    }
                    if !infos[k].errored.is_empty() {
                        stats.probe("request_for_exchange_without_link");
                        // no link at all: fatal, so this is the run's last record
                        if !t.event.is_terminal() || k + 1 != out.ticks.len() {
                            fail!('chk, "R3_missing_link_is_fatal", k, "audit record {k} reports requests {:?} for an exchange that has no execution link, but it is not the terminal record (terminal={}, record {} of {})", infos[k].errored, t.event.is_terminal(), k + 1, out.ticks.len());
                        }
                    }
                    for r in &infos[k].sent {
                        if Some(r.ex) == sc.untraded {
                            fail!('chk, "R1_sent_iff_delivered_once", k, "audit record {k} reports {:?} as sent although exchange {} has no execution link", r, r.ex);
                        }
                    }
                }
                for e in 0..w.n_ex {
                    let sent: Vec<(bool, String, usize)> = infos
                        .iter()
                        .flat_map(|i| i.sent.iter())
                        .filter(|r| r.ex == e)
                        .map(|r| (r.open, r.cid.clone(), r.inst))
                        .collect();
                    let mut got: Vec<(bool, String, usize)> = got_reqs[e].iter().map(|r| (r.open, r.cid.clone(), r.inst)).collect();
                    if hidden_allowed && got.len() > sent.len() && got[..sent.len()] == sent[..] {
                        // the final, fatal record hides its strategy batch: what was delivered beyond
                        // the reported requests must at least be requests of a scripted batch
                        for x in got.split_off(sent.len()) {
                            let from_batch = sc.batches.iter().any(|b| {
                                let v = if x.0 { &b.opens } else { &b.cancels };
                                v.iter().any(|o| cid(*o) == x.1)
                            });
                            if !from_batch {
                                fail!('chk, "R1_sent_iff_delivered_once", e, "exchange {e}: its client received {:?}, which no audit record reports and no strategy batch contains", x);
                            }
                        }
                    }
                    if !sent.is_empty() {
                        stats.probe("requests_crossed_real_execution_manager");
                    }
                    if sent != got {
                        fail!('chk, "R1_sent_iff_delivered_once", e, "exchange {e}: audit stream reports as sent {:?}; its client received {:?}", sent, got);
                    }
                    if out.received[e].iter().any(|r| r.exchange != EXS[e]) {
                        fail!('chk, "R1_sent_iff_delivered_once", e, "exchange {e}: its client received a request addressed to another exchange: {:?}", out.received[e]);
                    }
                }
                // a released strategy batch with an approved request for the exchange that has no
                // link cannot have been delivered in full: the run must have ended on that fatal record
                if let Some(u) = sc.untraded {
                    for b in sc.batches.iter().take(out.batches_released as usize) {
                        let doomed = b.opens.iter().any(|o| w.ord_ok(sc, *o) && w.inst_ex[sc.ords[*o].inst] == u && !sc.refuse_opens.contains(o))
                            || b.cancels.iter().any(|o| w.ord_ok(sc, *o) && w.inst_ex[sc.ords[*o].inst] == u && !sc.refuse_cancels.contains(o));
                        if doomed {
                            stats.probe("strategy_request_for_exchange_without_link");
                            let fatal_end = out.engine_died && infos.last().is_some_and(|i| i.n_errors > 0);
                            if !fatal_end {
                                fail!('chk, "R3_missing_link_is_fatal", 0, "the strategy issued {:?} / {:?} with a request for exchange {u}, which has no execution link, yet the run did not end on a fatal record (engine stopped: {}, errors in last record: {:?})", b.cancels, b.opens, out.engine_died, infos.last().map(|i| i.n_errors));
                            }
                        }
                    }
                }
                // refused by the risk manager => never delivered (strategy batches only)
                for b in &sc.batches {
                    for o in b.opens.iter().filter(|o| sc.refuse_opens.contains(o)) {
                        let cmd_too = sc.steps.iter().any(|s| matches!(&s.kind, KindH::CmdOpen { ords } if ords.contains(o)));
                        if !cmd_too && out.received.iter().flatten().any(|r| r.open && r.cid == cid(*o)) {
                            fail!('chk, "R4_refused_not_delivered", *o, "open request {} was refused by the risk manager but reached an exchange client", cid(*o));
                        }
                        stats.probe("risk_refusal_in_whole_system_run");
                    }
                }
            }

            // ================================================================================
            // C07: every delivered request is answered exactly once; nothing stays in flight
            // ================================================================================
            if self.prop == PropH::C07 {
                // responses seen by the engine, per (cid, open?)
                let mut responses: BTreeMap<(String, bool), Vec<(usize, bool)>> = BTreeMap::new(); // (tick, is_timeout)
                for (k, t) in out.ticks.iter().enumerate() {
                    let EngineAudit::Process(pa) = &t.event else { continue };
                    let EngineEvent::Account(AccountStreamEvent::Item(ev)) = &pa.event else { continue };
                    match &ev.kind {
                        AccountEventKind::OrderSnapshot(s) if is_open_response(&s.0.state) => {
                            let to = matches!(&s.0.state, OrderState::Inactive(InactiveOrderState::OpenFailed(OrderError::Connectivity(ConnectivityError::Timeout))));
                            responses.entry((s.0.key.cid.0.to_string(), true)).or_default().push((k, to));
                        }
                        AccountEventKind::OrderCancelled(c) => {
                            let to = matches!(&c.state, Err(OrderError::Connectivity(ConnectivityError::Timeout)));
                            responses.entry((c.key.cid.0.to_string(), false)).or_default().push((k, to));
                        }
                        _ => {}
                    }
                }
                let mut requests: BTreeMap<(String, bool), Vec<&RecvReq>> = BTreeMap::new();
                for r in out.received.iter().flatten() {
                    requests.entry((r.cid.clone(), r.open)).or_default().push(r);
                }
                for (key, reqs) in &requests {
                    let n = responses.get(key).map_or(0, |v| v.len());
                    if out.engine_died && n < reqs.len() {
                        // answers addressed to an engine that had already stopped
                        continue;
                    }
                    if n != reqs.len() {
                        fail!('chk, "E2_exactly_one_event", 0, "{} request(s) for order {} ({}) reached the exchange client at {:?} ms; the engine processed {n} answer(s)", reqs.len(), key.0, if key.1 { "open" } else { "cancel" }, reqs.iter().map(|r| r.at_ms).collect::<Vec<_>>());
                    }
                    if reqs.len() == 1 {
                        let r = reqs[0];
                        let Some(o) = ord_of_cid(&r.cid).and_then(|k| sc.ords.get(k)) else { continue };
                        let b = if r.open { o.open } else { o.cancel };
                        let (_, was_timeout) = responses[key][0];
                        let ambiguous = match (sc.jump, b.delay_ms) {
                            (Some((j, by)), Some(d)) => {
                                let dl = r.at_ms + timeout;
                                dl > j && dl <= j + by && r.at_ms + d <= j + by
                            }
                            _ => false,
                        };
                        match b.delay_ms {
                            Some(d) if d < timeout => {
                                if was_timeout {
                                    fail!('chk, "E5_timeout_instead_of_response", 0, "order {} ({}): the client answered after {d} ms < timeout {timeout} ms but the engine was told the request timed out", key.0, if key.1 { "open" } else { "cancel" });
                                }
                                stats.probe("response_in_time");
                            }
                            Some(d) if d == timeout => {}
                            _ => {
                                if !was_timeout && !ambiguous {
                                    fail!('chk, "E5_response_after_timeout", 0, "order {} ({}): client delay {:?} ms > timeout {timeout} ms but the engine received the client's answer", key.0, if key.1 { "open" } else { "cancel" }, b.delay_ms);
                                }
                                stats.probe("request_timed_out");
                            }
                        }
                    }
                }
                for key in responses.keys() {
                    if !requests.contains_key(key) {
                        fail!('chk, "E2_exactly_one_event", 0, "the engine processed an answer for order {} ({}) that no exchange client ever received a request for", key.0, if key.1 { "open" } else { "cancel" });
                    }
                }
                // bounded liveness: faults stopped >= 2 x (timeout + slowest client) + 1 s ago
                for i in (0..w.n_inst()).filter(|_| !out.engine_died) {
                    for (c, o) in out.final_state.instruments.instrument_index(&InstrumentIndex(i)).orders.0.iter() {
                        if matches!(o.state, ActiveOrderState::OpenInFlight(_) | ActiveOrderState::CancelInFlight(_)) {
                            fail!('chk, "E7_in_flight_never_resolved", i, "order {} on instrument {i} is still {:?} after every request was answered and the system went quiet", c.0, o.state);
                        }
                    }
                }
                if !out.engine_died {
                    stats.probe("quiescence_reached_no_order_in_flight");
                }
            }

            // ================================================================================
            // C14: connectivity, stepwise on the replica + final engine
            // ================================================================================
            if self.prop == PropH::C14 {
                // links start as the initial snapshot says (reconnecting until their first event)
                let mut conn: Vec<(bool, bool)> = (0..w.n_ex)
                    .map(|e| {
                        let cs = out.snapshot.event.connectivity.connectivity_index(&ExchangeIndex(e));
                        (cs.market_data == Health::Healthy, cs.account == Health::Healthy)
                    })
                    .collect();
                let queue: Rc<RefCell<VecDeque<Tick>>> = Rc::new(RefCell::new(VecDeque::new()));
                let q2 = queue.clone();
                let updates = std::iter::from_fn(move || q2.borrow_mut().pop_front());
                let mut replica = StateReplicaManager::new(out.snapshot.clone(), updates);
                let mut notices: Vec<ExchangeId> = Vec::new();
                let mut acct_notices = vec![0u64; w.n_ex];
                let mut mkt_notices = vec![0u64; w.n_ex];
                for (k, t) in out.ticks.iter().enumerate() {
                    queue.borrow_mut().push_back(t.clone());
                    let _ = replica.run::<u64, ExchangeId>();
                    let EngineAudit::Process(pa) = &t.event else { continue };
                    let mut notice: Option<(&'static str, ExchangeId)> = None;
                    match &pa.event {
                        EngineEvent::Market(MarketStreamEvent::Reconnecting(x)) => {
                            if let Some(e) = EXS.iter().position(|y| y == x).filter(|e| *e < w.n_ex) {
                                conn[e].0 = false;
                                mkt_notices[e] += 1;
                            }
                            notice = Some(("market", *x));
                        }
                        EngineEvent::Account(AccountStreamEvent::Reconnecting(x)) => {
                            if let Some(e) = EXS.iter().position(|y| y == x).filter(|e| *e < w.n_ex) {
                                conn[e].1 = false;
                                acct_notices[e] += 1;
                            }
                            notice = Some(("account", *x));
                        }
                        EngineEvent::Market(MarketStreamEvent::Item(m)) => {
                            if let Some(e) = EXS.iter().position(|y| *y == m.exchange).filter(|e| *e < w.n_ex) {
                                if !conn[e].0 {
                                    stats.probe("market_link_healed");
                                }
                                conn[e].0 = true;
                            }
                        }
                        EngineEvent::Account(AccountStreamEvent::Item(ev)) => {
                            if ev.exchange.0 < w.n_ex {
                                if !conn[ev.exchange.0].1 {
                                    stats.probe("account_link_healed");
                                }
                                conn[ev.exchange.0].1 = true;
                            }
                        }
                        _ => {}
                    }
                    match notice {
                        Some(n) => {
                            notices.push(n.1);
                            if infos[k].disconnects != vec![n] {
                                fail!('chk, "K3_on_disconnect_calls", k, "{} disconnect notice for {}: audit outputs {:?}", n.0, n.1, infos[k].disconnects);
                            }
                        }
                        None => {
                            if !infos[k].disconnects.is_empty() {
                                fail!('chk, "K3_on_disconnect_calls", k, "on-disconnect output {:?} without a notice", infos[k].disconnects);
                            }
                        }
                    }
                    let s = replica.replica_engine_state();
                    let all_ok = conn.iter().all(|(m, a)| *m && *a);
                    if (s.connectivity.global == Health::Healthy) != all_ok {
                        fail!('chk, "K1_global_health", k, "after audit record {k}: global connectivity {:?} but per-link model {:?}", s.connectivity.global, conn);
                    }
                    for e in 0..w.n_ex {
                        let cs = s.connectivity.connectivity_index(&ExchangeIndex(e));
                        let got = (cs.market_data == Health::Healthy, cs.account == Health::Healthy);
                        if got != conn[e] {
                            fail!('chk, "K2_link_health", k, "after audit record {k}: exchange {e} (market, account) healthy = {:?}, model says {:?}", got, conn[e]);
                        }
                    }
                }
                // the engine handed back agrees with the last step
                let s = &out.final_state;
                for e in 0..w.n_ex {
                    let cs = s.connectivity.connectivity_index(&ExchangeIndex(e));
                    let got = (cs.market_data == Health::Healthy, cs.account == Health::Healthy);
                    if got != conn[e] {
                        fail!('chk, "K2_link_health", out.ticks.len(), "final engine: exchange {e} (market, account) healthy = {:?}, model says {:?}", got, conn[e]);
                    }
                }
                if out.disconnects != notices {
                    fail!('chk, "K3_on_disconnect_calls", 0, "on-disconnect strategy invoked for {:?}; notices processed {:?}", out.disconnects, notices);
                }
                // one notice per dropped connection, for the right exchange
                if !out.engine_died && acct_notices != out.account_drops {
                    fail!('chk, "K5_one_notice_per_drop", 0, "account connections dropped per exchange {:?}; account disconnect notices processed {:?}", out.account_drops, acct_notices);
                }
                if !out.engine_died && mkt_notices != out.market_notices_pushed {
                    fail!('chk, "K5_one_notice_per_drop", 0, "market notices pushed per exchange {:?}; processed {:?}", out.market_notices_pushed, mkt_notices);
                }
                if out.account_drops.iter().any(|d| *d > 0) {
                    stats.probe("account_stream_reconnected_by_real_manager");
                }
            }

            // ================================================================================
            // C01: order tracking over the audited end-to-end history
            // ================================================================================
            if self.prop == PropH::C01 {
                let mut poss: Vec<Poss> = vec![Poss::Set(vec![M::Untracked]); sc.ords.len()];
                let queue: Rc<RefCell<VecDeque<Tick>>> = Rc::new(RefCell::new(VecDeque::new()));
                let q2 = queue.clone();
                let updates = std::iter::from_fn(move || q2.borrow_mut().pop_front());
                let mut replica = StateReplicaManager::new(out.snapshot.clone(), updates);
                for (k, t) in out.ticks.iter().enumerate() {
                    queue.borrow_mut().push_back(t.clone());
                    let _ = replica.run::<u64, ExchangeId>();
                    let EngineAudit::Process(pa) = &t.event else { continue };
                    let mut ops: Vec<(usize, OpA)> = Vec::new();
                    if let EngineEvent::Account(AccountStreamEvent::Item(ev)) = &pa.event {
                        match &ev.kind {
                            AccountEventKind::OrderSnapshot(s) => {
                                if let Some(o) = ord_of_cid(&s.0.key.cid.0).filter(|o| w.ord_ok(sc, *o)) {
                                    let st = match &s.0.state {
                                        OrderState::Active(ActiveOrderState::Open(op)) => Some(SnapSt::Open(od_of_open(op))),
                                        OrderState::Inactive(InactiveOrderState::FullyFilled) => Some(SnapSt::FullyFilled),
                                        OrderState::Inactive(InactiveOrderState::Cancelled(c)) => Some(SnapSt::Cancelled { t: ms_of(c.time_exchange) }),
                                        OrderState::Inactive(InactiveOrderState::Expired) => Some(SnapSt::Expired),
                                        OrderState::Inactive(InactiveOrderState::OpenFailed(_)) => Some(SnapSt::Failed),
                                        _ => None,
                                    };
                                    if let Some(st) = st {
                                        ops.push((o, OpA::Snap { ord: o, st }));
                                    }
                                }
                            }
                            AccountEventKind::OrderCancelled(c) => {
                                if let Some(o) = ord_of_cid(&c.key.cid.0).filter(|o| w.ord_ok(sc, *o)) {
                                    let (ok, tt) = match &c.state {
                                        Ok(x) => (true, ms_of(x.time_exchange)),
                                        Err(_) => (false, 0),
                                    };
                                    ops.push((o, OpA::CancelResp { ord: o, ok, t: tt }));
                                }
                            }
                            _ => {}
                        }
                    }
                    // requests go out after the event was applied: the command's, then the strategy's
                    // (each: cancels, then opens) - the order the audit outputs list them in
                    for r in infos[k].sent.iter() {
                        if let Some(o) = ord_of_cid(&r.cid).filter(|o| w.ord_ok(sc, *o)) {
                            ops.push((o, if r.open { OpA::OpenSent { ord: o } } else { OpA::CancelSent { ord: o } }));
                        }
                    }
                    if k + 1 == out.ticks.len() {
                        for r in hidden.iter() {
                            if let Some(o) = ord_of_cid(&r.cid).filter(|o| w.ord_ok(sc, *o)) {
                                ops.push((o, if r.open { OpA::OpenSent { ord: o } } else { OpA::CancelSent { ord: o } }));
                            }
                        }
                    }
                    for (o, op) in &ops {
                        poss[*o] = poss_step(&poss[*o], op, sc.ords[*o].qty);
                    }
                    // stepwise, on what a replica can know (exchange-reported data of each order)
                    let s = replica.replica_engine_state();
                    for (o, p) in poss.iter().enumerate() {
                        if !w.ord_ok(sc, o) {
                            continue;
                        }
                        let Poss::Set(ms) = p else { continue };
                        let got = data_of(&view_h(s, sc.ords[o].inst, &cid(o)));
                        if !ms.iter().any(|m| data_of(m) == got) {
                            fail!('chk, "L1_tracking_follows_lifecycle", k, "after audit record {k}: order {} holds exchange data {:?}; the lifecycle model allows {:?}", cid(o), got, ms);
                        }
                        // an order never shows up under another instrument
                        for i in 0..w.n_inst() {
                            if i != sc.ords[o].inst && view_h(s, i, &cid(o)) != M::Untracked {
                                fail!('chk, "L2_reports_about_one_order_change_another", k, "order {} (instrument {}) is tracked under instrument {i}", cid(o), sc.ords[o].inst);
                            }
                        }
                    }
                }
                // final engine, exact (the system is quiet: nothing is in flight any more)
                for (o, p) in poss.iter().enumerate() {
                    if !w.ord_ok(sc, o) {
                        continue;
                    }
                    let Poss::Set(ms) = p else {
                        stats.probe("model_left_state_open");
                        continue;
                    };
                    let got = view_h(&out.final_state, sc.ords[o].inst, &cid(o));
                    if !ms.contains(&got) {
                        fail!('chk, "L1_tracking_follows_lifecycle", out.ticks.len(), "final engine: order {} is {:?}; the lifecycle model over the audited history allows {:?}", cid(o), got, ms);
                    }
                    if got != M::Untracked {
                        stats.probe("order_tracked_at_quiescence");
                    }
                }
                stats.probe("lifecycle_model_followed_whole_system_run");
            }
            // ================================================================================
            // C09: what the engine holds always carries the greatest exchange timestamp delivered
            // ================================================================================
            if self.prop == PropH::C09 {
                let n_assets = w.instruments.assets().len();
                let mut bal: Vec<Vec<(i64, rust_decimal::Decimal)>> = vec![Vec::new(); n_assets];
                let mut trd: Vec<Vec<(i64, rust_decimal::Decimal)>> = vec![Vec::new(); w.n_inst()];
                let mut last_data: Vec<Option<OD>> = vec![None; sc.ords.len()];
                let queue: Rc<RefCell<VecDeque<Tick>>> = Rc::new(RefCell::new(VecDeque::new()));
                let q2 = queue.clone();
                let updates = std::iter::from_fn(move || q2.borrow_mut().pop_front());
                let mut replica = StateReplicaManager::new(out.snapshot.clone(), updates);
                for (k, t) in out.ticks.iter().enumerate() {
                    queue.borrow_mut().push_back(t.clone());
                    let _ = replica.run::<u64, ExchangeId>();
                    if let EngineAudit::Process(pa) = &t.event {
                        match &pa.event {
                            EngineEvent::Account(AccountStreamEvent::Item(ev)) => match &ev.kind {
                                AccountEventKind::BalanceSnapshot(b) => {
                                    let a = b.0.asset.0;
                                    if a < n_assets {
                                        let tt = ms_of(b.0.time_exchange);
                                        if bal[a].iter().any(|(x, _)| *x > tt) {
                                            stats.probe("late_balance_ignored");
                                        }
                                        bal[a].push((tt, b.0.balance.total));
                                    }
                                }
                                AccountEventKind::Snapshot(s) => {
                                    for b in &s.balances {
                                        if b.asset.0 < n_assets {
                                            bal[b.asset.0].push((ms_of(b.time_exchange), b.balance.total));
                                        }
                                    }
                                }
                                AccountEventKind::OrderSnapshot(s) => {
                                    if let (Some(o), OrderState::Active(ActiveOrderState::Open(op))) = (ord_of_cid(&s.0.key.cid.0), &s.0.state) {
                                        if last_data.get(o).is_some_and(|d| d.as_ref().is_some_and(|d| d.t > ms_of(op.time_exchange))) {
                                            stats.probe("late_order_report_ignored");
                                        }
                                    }
                                }
                                _ => {}
                            },
                            EngineEvent::Market(MarketStreamEvent::Item(m)) => {
                                if let barter_data::event::DataKind::Trade(pt) = &m.kind {
                                    let i = m.instrument.0;
                                    if i < w.n_inst() {
                                        let tt = ms_of(m.time_exchange);
                                        if trd[i].iter().any(|(x, _)| *x > tt) {
                                            stats.probe("late_public_trade_ignored");
                                        }
                                        trd[i].push((tt, rust_decimal::Decimal::try_from(pt.price).unwrap_or_default()));
                                    }
                                }
                            }
                            _ => {}
                        }
                    }
                    let s = replica.replica_engine_state();
                    for a in 0..n_assets {
                        let held = s.assets.asset_index(&barter_instrument::asset::AssetIndex(a)).balance;
                        let ok = match (held, bal[a].iter().map(|x| x.0).max()) {
                            (None, None) => true,
                            (Some(h), Some(mx)) => ms_of(h.time) == mx && bal[a].iter().any(|(tt, v)| *tt == mx && *v == h.value.total),
                            _ => false,
                        };
                        if !ok {
                            fail!('chk, "T1_balance_not_latest", k, "after audit record {k}: asset {a} holds {:?}; balances delivered so far (t, total) {:?}", held.map(|h| (ms_of(h.time), h.value.total)), bal[a]);
                        }
                    }
                    for i in 0..w.n_inst() {
                        let held = s.instruments.instrument_index(&InstrumentIndex(i)).data.last_traded_price;
                        let ok = match (held, trd[i].iter().map(|x| x.0).max()) {
                            (None, None) => true,
                            (Some(h), Some(mx)) => ms_of(h.time) == mx && trd[i].iter().any(|(tt, v)| *tt == mx && *v == h.value),
                            _ => false,
                        };
                        if !ok {
                            fail!('chk, "T2_last_trade_not_latest", k, "after audit record {k}: instrument {i} holds last trade {:?}; public trades delivered so far (t, price) {:?}", held.map(|h| (ms_of(h.time), h.value)), trd[i]);
                        }
                    }
                    // an order's exchange-reported data never moves back while it stays tracked
                    for o in 0..sc.ords.len() {
                        if !w.ord_ok(sc, o) {
                            continue;
                        }
                        let now = data_of(&view_h(s, sc.ords[o].inst, &cid(o)));
                        if let (Some(prev), Some(cur)) = (&last_data[o], &now) {
                            if cur.t < prev.t {
                                fail!('chk, "T4_order_data_moved_back", k, "after audit record {k}: order {} holds exchange data stamped {} ms, before this record it held data stamped {} ms", cid(o), cur.t, prev.t);
                            }
                        }
                        last_data[o] = now;
                    }
                }
                // the engine handed back holds what the replica holds
                let s = &out.final_state;
                let r = replica.replica_engine_state();
                for a in 0..n_assets {
                    let idx = barter_instrument::asset::AssetIndex(a);
                    if s.assets.asset_index(&idx).balance != r.assets.asset_index(&idx).balance {
                        fail!('chk, "T1_balance_not_latest", out.ticks.len(), "final engine: asset {a} holds {:?}, the replica of the audit stream {:?}", s.assets.asset_index(&idx).balance, r.assets.asset_index(&idx).balance);
                    }
                }
                for i in 0..w.n_inst() {
                    let idx = InstrumentIndex(i);
                    if s.instruments.instrument_index(&idx).data.last_traded_price != r.instruments.instrument_index(&idx).data.last_traded_price {
                        fail!('chk, "T2_last_trade_not_latest", out.ticks.len(), "final engine: instrument {i} last trade differs from the replica of the audit stream");
                    }
                }
            }
            // ================================================================================
            // C15: unrealised PnL follows the latest price / the fill price (on the replica)
            // ================================================================================
            if self.prop == PropH::C15 {
                let queue: Rc<RefCell<VecDeque<Tick>>> = Rc::new(RefCell::new(VecDeque::new()));
                let q2 = queue.clone();
                let updates = std::iter::from_fn(move || q2.borrow_mut().pop_front());
                let mut replica = StateReplicaManager::new(out.snapshot.clone(), updates);
                for (k, t) in out.ticks.iter().enumerate() {
                    let before = replica.replica_engine_state().clone();
                    queue.borrow_mut().push_back(t.clone());
                    let _ = replica.run::<u64, ExchangeId>();
                    let EngineAudit::Process(pa) = &t.event else { continue };
                    let after = replica.replica_engine_state();
                    // which instrument does the event price / fill?
                    let mut priced: Option<usize> = None;
                    let mut filled: Option<(usize, rust_decimal::Decimal, bool)> = None;
                    match &pa.event {
                        EngineEvent::Market(MarketStreamEvent::Item(m)) => {
                            if matches!(m.kind, barter_data::event::DataKind::Trade(_)) {
                                priced = Some(m.instrument.0);
                            }
                        }
                        EngineEvent::Account(AccountStreamEvent::Item(ev)) => {
                            if let AccountEventKind::Trade(tr) = &ev.kind {
                                filled = Some((tr.instrument.0, tr.price, !tr.fees.fees.is_zero()));
                            }
                        }
                        _ => {}
                    }
                    for i in 0..w.n_inst() {
                        let a = after.instruments.instrument_index(&InstrumentIndex(i));
                        let b = before.instruments.instrument_index(&InstrumentIndex(i));
                        let Some(pos) = &a.position.current else { continue };
                        let est = |price: rust_decimal::Decimal| {
                            pnl_estimate(pos.side, pos.price_entry_average, pos.quantity_abs, pos.quantity_abs_max, pos.fees_enter.fees, price)
                        };
                        if priced == Some(i) {
                            let Some(price) = a.data.price() else { continue };
                            stats.probe("priced_market_event_with_open_position");
                            if a.data == b.data {
                                stats.probe("late_market_event_ignored_by_data_guard");
                            }
                            if !close_enough(pos.pnl_unrealised, est(price)) {
                                fail!('chk, "P1_pnl_not_refreshed_by_market_event", k, "after audit record {k}: instrument {i} price()={price}, position {{side {:?}, entry {}, qty {}, max {}, fees_enter {}}} pnl_unrealised={} but the estimate at the current price is {}", pos.side, pos.price_entry_average, pos.quantity_abs, pos.quantity_abs_max, pos.fees_enter.fees, pos.pnl_unrealised, est(price));
                            }
                        } else if let Some((fi, fill_price, with_fee)) = filled.filter(|f| f.0 == i) {
                            let _ = fi;
                            let opened = b.position.current.is_none() || b.position.current.as_ref().is_some_and(|p| p.side != pos.side);
                            stats.probe("fill_with_position_after");
                            if !close_enough(pos.pnl_unrealised, est(fill_price)) {
                                let key = if opened && with_fee && pos.pnl_unrealised.is_zero() && close_enough(est(fill_price), -pos.fees_enter.fees) {
                                    Some("C15-opening-fill-with-fee-leaves-pnl-unrealised-zero")
                                } else {
                                    None
                                };
                                fail_key!('chk, "P2_pnl_after_fill", k, key, "after audit record {k}: instrument {i} filled at {fill_price}: pnl_unrealised={} but the estimate at the fill price is {} (position opened by this fill: {opened})", pos.pnl_unrealised, est(fill_price));
                            }
                        } else {
                            let prev = b.position.current.as_ref().map(|p| p.pnl_unrealised);
                            if Some(pos.pnl_unrealised) != prev {
                                fail!('chk, "P3_pnl_changed_without_cause", k, "after audit record {k}: an event about something else changed instrument {i}'s pnl_unrealised {:?} -> {}", prev, pos.pnl_unrealised);
                            }
                        }
                    }
                }
                // the engine handed back holds the positions the replica holds
                for i in 0..w.n_inst() {
                    let idx = InstrumentIndex(i);
                    if out.final_state.instruments.instrument_index(&idx).position != replica.replica_engine_state().instruments.instrument_index(&idx).position {
                        fail!('chk, "P1_pnl_not_refreshed_by_market_event", out.ticks.len(), "final engine: position of instrument {i} differs from the replica of the audit stream");
                    }
                }
            }
            // ================================================================================
            // C19: cancel-orders / close-positions act on exactly the filtered scope
            // ================================================================================
            if self.prop == PropH::C19 {
                use barter::engine::{EngineOutput, action::ActionOutput, command::Command};
                // lifecycle model of every client order id that ever appears (scenario orders and
                // the close orders the engine generates): (instrument, quantity, possible states)
                let mut trk: BTreeMap<String, (usize, i64, Poss)> = BTreeMap::new();
                for (o, od) in sc.ords.iter().enumerate() {
                    if w.ord_ok(sc, o) {
                        trk.insert(cid(o), (od.inst, od.qty, Poss::Set(vec![M::Untracked])));
                    }
                }
                let queue: Rc<RefCell<VecDeque<Tick>>> = Rc::new(RefCell::new(VecDeque::new()));
                let q2 = queue.clone();
                let updates = std::iter::from_fn(move || q2.borrow_mut().pop_front());
                let mut replica = StateReplicaManager::new(out.snapshot.clone(), updates);
                let (mut n_cancel_cmd, mut n_close_cmd) = (0usize, 0usize);
                for (k, t) in out.ticks.iter().enumerate() {
                    let before = replica.replica_engine_state().clone();
                    queue.borrow_mut().push_back(t.clone());
                    let _ = replica.run::<u64, ExchangeId>();
                    let EngineAudit::Process(pa) = &t.event else { continue };
                    // ---- the command itself, judged against the state before this record -------
                    match &pa.event {
                        EngineEvent::Command(Command::CancelOrders(_)) => {
                            let Some(f) = out.cancel_filters.get(n_cancel_cmd) else {
                                fail!('chk, "F1_cancel_scope", k, "audit record {k} is a cancel-orders command nobody pushed");
                                break 'chk;
                            };
                            n_cancel_cmd += 1;
                            let scope = w.scope(f);
                            let mut got: Vec<(String, String)> = Vec::new();
                            for o in pa.outputs.iter() {
                                if let EngineOutput::Commanded(ActionOutput::CancelOrders(c)) = o {
                                    for r in c.sent.iter().chain(c.errors.iter().map(|(r, _)| r)) {
                                        got.push((r.key.cid.0.to_string(), format!("{:?}", r.state.id.as_ref().map(|i| i.0.to_string()))));
                                    }
                                }
                            }
                            let mut any = false;
                            for (c, (inst, _, p)) in trk.iter() {
                                let mine: Vec<&(String, String)> = got.iter().filter(|g| g.0 == *c).collect();
                                if mine.len() > 1 {
                                    fail!('chk, "F1_cancel_scope", k, "cancel-orders command (audit record {k}) requested the cancellation of order {c} {} times", mine.len());
                                }
                                let in_scope = scope.get(*inst).copied().unwrap_or(false);
                                let Poss::Set(ms) = p else {
                                    stats.probe("order_state_uncertain_skipped");
                                    continue;
                                };
                                let cancellable = |m: &M| matches!(m, M::InFlightOpen | M::Open(_));
                                let must = in_scope && ms.iter().all(cancellable);
                                let must_not = !in_scope || !ms.iter().any(cancellable);
                                if !in_scope && ms.iter().any(|m| m.tracked()) {
                                    stats.probe("filter_excludes_tracked_order");
                                }
                                if in_scope && ms.iter().all(|m| matches!(m, M::InFlightCancel(_))) {
                                    stats.probe("cancel_repeated_while_cancel_in_flight");
                                }
                                if must {
                                    any = true;
                                    if ms.iter().all(|m| matches!(m, M::InFlightOpen)) {
                                        stats.probe("cancel_of_order_still_open_in_flight");
                                    }
                                    let ids: Vec<String> = ms
                                        .iter()
                                        .map(|m| match m {
                                            M::Open(od) => format!("{:?}", Some(format!("{}-{c}", if od.id == 0 { "x" } else { "s" }))),
                                            _ => format!("{:?}", None::<String>),
                                        })
                                        .collect();
                                    match mine.first() {
                                        None => {
                                            fail!('chk, "F1_cancel_scope", k, "cancel-orders {:?} (audit record {k}): order {c} on instrument {inst} is tracked ({ms:?}) and inside the filter but no cancellation was requested for it", f);
                                        }
                                        Some(g) if !ids.contains(&g.1) => {
                                            fail!('chk, "F1_cancel_addressing", k, "cancel-orders (audit record {k}): order {c} ({ms:?}) cancelled with exchange order id {}, expected one of {ids:?}", g.1);
                                        }
                                        _ => {}
                                    }
                                } else if must_not && !mine.is_empty() {
                                    fail!('chk, "F1_cancel_scope", k, "cancel-orders {:?} (audit record {k}) requested the cancellation of order {c} (instrument {inst}, in scope: {in_scope}, state {ms:?})", f);
                                } else if !must && !must_not {
                                    stats.probe("order_state_uncertain_skipped");
                                }
                            }
                            for g in &got {
                                if !trk.contains_key(&g.0) {
                                    fail!('chk, "F1_cancel_scope", k, "cancel-orders (audit record {k}) requested the cancellation of {}, an order id that never appeared before", g.0);
                                }
                            }
                            if any {
                                stats.probe("cancel_command_with_orders_in_scope");
                            }
                        }
                        EngineEvent::Command(Command::ClosePositions(_)) => {
                            let Some(f) = out.close_filters.get(n_close_cmd) else {
                                fail!('chk, "F2_close_scope", k, "audit record {k} is a close-positions command nobody pushed");
                                break 'chk;
                            };
                            n_close_cmd += 1;
                            let scope = w.scope(f);
                            let mut exp: Vec<(usize, String)> = Vec::new();
                            for (i, in_scope) in scope.iter().enumerate() {
                                if !in_scope {
                                    continue;
                                }
                                let ist = before.instruments.instrument_index(&InstrumentIndex(i));
                                let (Some(pz), Some(_price)) = (&ist.position.current, ist.data.price()) else { continue };
                                let side = match pz.side {
                                    barter_instrument::Side::Buy => barter_instrument::Side::Sell,
                                    barter_instrument::Side::Sell => barter_instrument::Side::Buy,
                                };
                                exp.push((i, format!("{side:?}|{}", pz.quantity_abs.normalize())));
                            }
                            exp.sort();
                            let mut got: Vec<(usize, String)> = Vec::new();
                            for o in pa.outputs.iter() {
                                if let EngineOutput::Commanded(ActionOutput::ClosePositions(co)) = o {
                                    if !co.cancels.is_empty() {
                                        fail!('chk, "F2_close_scope", k, "the default close-positions strategy issued cancels: {:?}", co.cancels);
                                    }
                                    for r in co.opens.sent.iter().chain(co.opens.errors.iter().map(|(r, _)| r)) {
                                        if r.state.kind != OrderKind::Market {
                                            fail!('chk, "F2_close_scope", k, "close order is not a market order: {:?}", r);
                                        }
                                        got.push((r.key.instrument.0, format!("{:?}|{}", r.state.side, r.state.quantity.normalize())));
                                    }
                                }
                            }
                            got.sort();
                            if !exp.is_empty() {
                                stats.probe("close_command_with_position_in_scope");
                            }
                            if got != exp {
                                fail!('chk, "F2_close_scope", k, "close-positions {:?} (audit record {k}): requested (instrument, side|quantity) {got:?}; positions with a price inside the filter call for {exp:?}", f);
                            }
                        }
                        _ => {}
                    }
                    // ---- then advance the lifecycle model by this record ---------------------------
                    let mut ops: Vec<(String, usize, OpA)> = Vec::new();
                    if let EngineEvent::Account(AccountStreamEvent::Item(ev)) = &pa.event {
                        match &ev.kind {
                            AccountEventKind::OrderSnapshot(s) => {
                                let st = match &s.0.state {
                                    OrderState::Active(ActiveOrderState::Open(op)) => Some(SnapSt::Open(od_of_open(op))),
                                    OrderState::Inactive(InactiveOrderState::FullyFilled) => Some(SnapSt::FullyFilled),
                                    OrderState::Inactive(InactiveOrderState::Cancelled(c)) => Some(SnapSt::Cancelled { t: ms_of(c.time_exchange) }),
                                    OrderState::Inactive(InactiveOrderState::Expired) => Some(SnapSt::Expired),
                                    OrderState::Inactive(InactiveOrderState::OpenFailed(_)) => Some(SnapSt::Failed),
                                    _ => None,
                                };
                                if let Some(st) = st {
                                    ops.push((s.0.key.cid.0.to_string(), s.0.key.instrument.0, OpA::Snap { ord: 0, st }));
                                }
                            }
                            AccountEventKind::OrderCancelled(c) => {
                                let (ok, tt) = match &c.state {
                                    Ok(x) => (true, ms_of(x.time_exchange)),
                                    Err(_) => (false, 0),
                                };
                                ops.push((c.key.cid.0.to_string(), c.key.instrument.0, OpA::CancelResp { ord: 0, ok, t: tt }));
                            }
                            _ => {}
                        }
                    }
                    let last = k + 1 == out.ticks.len();
                    for r in infos[k].sent.iter().chain(hidden.iter().filter(|_| last)) {
                        ops.push((r.cid.clone(), r.inst, if r.open { OpA::OpenSent { ord: 0 } } else { OpA::CancelSent { ord: 0 } }));
                    }
                    for (c, inst, op) in ops {
                        let e = trk.entry(c).or_insert((inst, i64::MAX / 4, Poss::Set(vec![M::Untracked])));
                        e.2 = poss_step(&e.2, &op, e.1);
                    }
                }
            }
            // ================================================================================
            // C12: the manager's reconnecting account stream, seen from the engine
            // ================================================================================
            if self.prop == PropH::C12 && !out.engine_died {
                let mut acct_notices = vec![0u64; w.n_ex];
                let mut trade_ids: Vec<String> = Vec::new();
                for t in &out.ticks {
                    let EngineAudit::Process(pa) = &t.event else { continue };
                    match &pa.event {
                        EngineEvent::Account(AccountStreamEvent::Reconnecting(x)) => {
                            if let Some(e) = EXS.iter().position(|y| y == x).filter(|e| *e < w.n_ex) {
                                acct_notices[e] += 1;
                            }
                        }
                        EngineEvent::Account(AccountStreamEvent::Item(ev)) => {
                            if let AccountEventKind::Trade(tr) = &ev.kind {
                                trade_ids.push(tr.id.0.to_string());
                            }
                        }
                        _ => {}
                    }
                }
                // exactly one notice per dropped connection (failed re-initialisations add none)
                if acct_notices != out.account_drops {
                    fail!('chk, "R2_one_notice_per_drop", 0, "account connections dropped per exchange {:?}; reconnecting notices that reached the engine {:?}", out.account_drops, acct_notices);
                }
                if out.account_drops.iter().any(|d| *d > 0) {
                    stats.probe("account_stream_reconnected_by_real_manager");
                }
                // the stream never ends by itself: whatever the exchange sends on a connection that is
                // up (no drop of that exchange within the next second, none at all before, or the last
                // one long enough ago for the retry after a failed re-initialisation) reaches the engine
                // exactly once
                for (e, at, id) in &out.trades_pushed {
                    let dropped_soon = out.drop_instants.iter().any(|(x, d)| x == e && *d >= *at && *d <= at + 1_000);
                    let just_reconnected = out.drop_instants.iter().any(|(x, d)| x == e && *d <= *at && at - d < 1_000);
                    if dropped_soon || just_reconnected {
                        continue;
                    }
                    let n = trade_ids.iter().filter(|x| *x == id).count();
                    if n != 1 {
                        fail!('chk, "R1_items_once_in_order", 0, "fill {id} pushed on exchange {e}'s account stream at {at} ms (connection up, drops of that exchange at {:?}) reached the engine {n} times", out.drop_instants.iter().filter(|(x, _)| x == e).map(|(_, d)| *d).collect::<Vec<_>>());
                    }
                    if out.drop_instants.iter().any(|(x, d)| x == e && d < at) {
                        stats.probe("item_delivered_after_reconnection");
                    }
                }
            }
            let _ = out.algo_calls;
            break 'chk;
        }

        Outcome {
            violation,
            stats,
            log_hash: log.hash(),
            signature: log.signature(),
            log: log.lines,
        }
    }

    fn shrink_len(&self, sc: &ScenarioH) -> usize {
        sc.steps.len() + sc.batches.len()
    }
    fn shrink_remove(&self, sc: &ScenarioH, from: usize, to: usize) -> ScenarioH {
        let mut s = sc.clone();
        let n = s.steps.len();
        let (sf, st) = (from.min(n), to.min(n));
        let (bf, bt) = (from.max(n) - n, to.max(n) - n);
        s.batches.drain(bf..bt);
        s.steps.drain(sf..st);
        s
    }
    fn simplify(&self, sc: &ScenarioH) -> Vec<ScenarioH> {
        let mut out = Vec::new();
        if sc.jump.is_some() {
            let mut s = sc.clone();
            s.jump = None;
            out.push(s);
        }
        if sc.yield_pm > 0 {
            let mut s = sc.clone();
            s.yield_pm = 0;
            out.push(s);
        }
        if sc.generic_client {
            let mut s = sc.clone();
            s.generic_client = false;
            out.push(s);
        }
        if !sc.refuse_opens.is_empty() || !sc.refuse_cancels.is_empty() {
            let mut s = sc.clone();
            s.refuse_opens.clear();
            s.refuse_cancels.clear();
            out.push(s);
        }
        if sc.inst_per_ex.len() > 1 && sc.ords.iter().all(|o| o.inst < sc.inst_per_ex[0]) {
            let mut s = sc.clone();
            s.inst_per_ex.truncate(1);
            out.push(s);
        }
        for (k, o) in sc.ords.iter().enumerate() {
            let plain = Behav { delay_ms: Some(0), resp: Resp::OkOpen };
            if o.open != plain {
                let mut s = sc.clone();
                s.ords[k].open = plain;
                out.push(s);
            }
            if o.cancel != plain {
                let mut s = sc.clone();
                s.ords[k].cancel = plain;
                out.push(s);
            }
        }
        for (k, st) in sc.steps.iter().enumerate() {
            if let KindH::AcctOrder { lag_ms, .. } | KindH::AcctBalance { lag_ms, .. } | KindH::Market { lag_ms, .. } = &st.kind {
                if *lag_ms > 0 {
                    let mut s = sc.clone();
                    if let KindH::AcctOrder { lag_ms, .. } | KindH::AcctBalance { lag_ms, .. } | KindH::Market { lag_ms, .. } = &mut s.steps[k].kind {
                        *lag_ms = 0;
                    }
                    out.push(s);
                }
            }
        }
        out
    }

    fn rule_text(&self) -> String {
        "whole-system sub-batches: each run wires the real ExecutionBuilder::add_live -> ExecutionManager::{init, run} -> SystemBuild::init (stream feed, audit on) -> Engine (LiveClock on the simulated wall clock) on a paused current-thread tokio runtime and drives it from outside only: market items / reconnect notices on the market stream, unsolicited (possibly lagging) order and balance reports and dropped connections on each exchange's account stream, operator commands through the System handle, strategy batches released by call count, risk refusals; every open / cancel request is answered by a scripted exchange client after 0..timeout-1 / timeout / more / never with ok / fully filled / rejected / connectivity error; optional clock leap and spurious channel wake-ups. After the last step the run waits 2 x (timeout + slowest client) + 1 s of virtual time, calls System::shutdown and judges the audit stream, the requests each client received and the engine handed back. C03: per exchange the requests reported as sent equal, in order, the requests its client received (R1), no delivery error on healthy links (R2), refused requests reach nobody (R4), no strategy output while trading is disabled (R6). C07: per (order, kind) as many answers processed by the engine as requests received by the client (E2), the client's answer iff delay < timeout, a timeout iff delay > timeout (E5), nothing left in flight at quiescence (E7). C10: consecutive sequences after the snapshot, only the last record terminal, one record per pushed event (A1), a real StateReplicaManager follows every record and ends equal to the returned engine (A2). C14: per-link / global health after every record (on the replica) and on the returned engine follow the notices and the next event per link (K1, K2), one on-disconnect call per notice (K3), one account notice per dropped connection (K5). C01: the Sim A lifecycle model folded over the audited history (event first, then cancels, then opens) bounds each order's exchange-reported data after every record and its exact state in the returned engine (L1, L2)".into()
    }
    fn components_real(&self) -> Vec<&'static str> {
        vec![
            "barter::system::builder::SystemBuild::{new, init} + System::{send_open_requests, send_cancel_requests, cancel_orders, trading_state, take_audit, shutdown}",
            "barter::execution::builder::ExecutionBuilder::{add_live, build} + ExecutionBuildFutures::init_with_runtime",
            "barter::execution::manager::ExecutionManager::{init, run} incl. reconnecting account stream (init_reconnecting_stream, with_reconnect_backoff, with_reconnection_events, merge)",
            "barter_execution::indexer::AccountEventIndexer / map::generate_execution_instrument_map",
            "barter::engine::run::async_run_with_audit, Engine::process, EngineState, LiveClock (wall clock = simulated clock through hook H1)",
            "barter::engine::audit::state_replica::StateReplicaManager",
            "barter_integration::channel (UnboundedTx / UnboundedRx, hook H2)",
            "tokio current-thread runtime, paused clock",
        ]
    }
    fn components_stub(&self) -> Vec<&'static str> {
        vec![
            "ExecutionClient (scripted per-request delay / outcome / silence; account stream fed and dropped by the simulator)",
            "market stream (simulator-fed channel)",
            "strategy / risk manager (scripted), operator (scripted commands)",
        ]
    }
    fn fault_kinds(&self) -> Vec<&'static str> {
        vec![
            "clock_jump",
            "spurious_channel_yield",
            "account_connection_dropped",
            "market_stream_reconnecting",
            "client_never_answers",
            "client_answers_at_or_after_timeout",
            "client_error_response",
            "account_report_lagging",
            "exchange_without_execution_link",
            "market_item_lagging",
            "account_reinitialisation_fails_once",
            "account_outage_outlasts_backoff_ladder",
        ]
    }
    fn probe_kinds(&self) -> Vec<&'static str> {
        let mut v = vec!["engine_stopped_on_fatal_error", "execution_wired_for_generic_client"];
        v.extend(match self.prop {
            PropH::C01 => vec!["lifecycle_model_followed_whole_system_run", "order_tracked_at_quiescence", "model_left_state_open"],
            PropH::C03 => vec!["requests_crossed_real_execution_manager", "command_actioned_while_trading_disabled", "risk_refusal_in_whole_system_run", "request_for_exchange_without_link", "strategy_request_for_exchange_without_link", "strategy_batch_hidden_by_fatal_record"],
            PropH::C07 => vec!["response_in_time", "request_timed_out", "quiescence_reached_no_order_in_flight"],
            PropH::C10 => vec!["replica_followed_whole_system_run"],
            PropH::C14 => vec!["market_link_healed", "account_link_healed", "account_stream_reconnected_by_real_manager"],
            PropH::C09 => vec!["late_balance_ignored", "late_public_trade_ignored", "late_order_report_ignored"],
            PropH::C15 => vec!["priced_market_event_with_open_position", "fill_with_position_after", "late_market_event_ignored_by_data_guard"],
            PropH::C12 => vec!["account_stream_reconnected_by_real_manager", "item_delivered_after_reconnection"],
            PropH::C19 => vec!["cancel_command_with_orders_in_scope", "cancel_repeated_while_cancel_in_flight", "cancel_of_order_still_open_in_flight", "close_command_with_position_in_scope", "filter_excludes_tracked_order", "order_state_uncertain_skipped"],
        });
        v
    }
    fn assumptions(&self) -> Vec<String> {
        vec![
            "whole-system runs: single-threaded runtime; the interleaving of tasks is decided by the seeded runtime, timers by the paused clock; a multi-threaded scheduler is not simulated".into(),
        ]
    }
}
