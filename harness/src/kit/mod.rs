//! Simulator kit shared by every simulator: run log + signatures, the `Sim` trait
//! (plan-then-execute), batch runner (N workers, one whole run per worker at a time, results merged
//! in run-index order), delta-debugging shrinker, replay files, known-findings matcher, evidence.

pub mod rng;

use rng::{Fnv, Rng, mix};
use serde::{Serialize, de::DeserializeOwned};
use serde_json::{Value, json};
use std::{
    collections::{BTreeMap, BTreeSet, HashSet},
    panic::{AssertUnwindSafe, catch_unwind},
    sync::{
        Mutex,
        atomic::{AtomicU64, Ordering},
    },
    time::Instant,
};

pub const DEFAULT_SEED: u64 = 20260926;

// ------------------------------------------------------------------------------------------------
// Violations, statistics, per-run outcome
// ------------------------------------------------------------------------------------------------

#[derive(Clone, Debug, Serialize, serde::Deserialize, PartialEq)]
pub struct Violation {
    pub property: String,
    /// Stable oracle rule identifier (the shrinker keeps a candidate only if the same rule fires).
    pub rule: String,
    pub step: usize,
    pub detail: String,
    /// Structural key of a recorded finding this violation matches (if the oracle recognises the
    /// specific failing shape). Only suppressed when known_findings.json lists the key as open.
    pub finding_key: Option<String>,
}

#[derive(Clone, Debug, Default)]
pub struct RunStats {
    pub steps: u64,
    pub sim_time_ms: u64,
    pub faults: BTreeMap<&'static str, u64>,
    pub probes: BTreeMap<&'static str, u64>,
    pub known: BTreeMap<String, u64>,
}

impl RunStats {
    pub fn fault(&mut self, k: &'static str) {
        *self.faults.entry(k).or_default() += 1;
    }
    pub fn probe(&mut self, k: &'static str) {
        *self.probes.entry(k).or_default() += 1;
    }
    pub fn merge(&mut self, o: &RunStats) {
        self.steps += o.steps;
        self.sim_time_ms += o.sim_time_ms;
        for (k, v) in &o.faults {
            *self.faults.entry(k).or_default() += v;
        }
        for (k, v) in &o.probes {
            *self.probes.entry(k).or_default() += v;
        }
        for (k, v) in &o.known {
            *self.known.entry(k.clone()).or_default() += v;
        }
    }
}

/// Event log of one run: always hashed, lines only kept when replaying / reporting.
pub struct Log {
    keep: bool,
    pub lines: Vec<String>,
    hash: Fnv,
    sig: Fnv,
}

impl Log {
    pub fn new(keep: bool) -> Self {
        Self {
            keep,
            lines: Vec::new(),
            hash: Fnv::default(),
            sig: Fnv::default(),
        }
    }
    /// Full event line (values + timestamps): feeds the determinism hash.
    pub fn line(&mut self, f: impl FnOnce() -> String) {
        // the closure is always evaluated: hashing needs the content
        let s = f();
        self.hash.str(&s);
        if self.keep {
            self.lines.push(s);
        }
    }
    /// Ordering-skeleton token (actor / message kind / fault tag, no values): feeds the signature.
    pub fn sig(&mut self, token: &str) {
        self.sig.str(token);
    }
    pub fn sig_u(&mut self, v: u64) {
        self.sig.u64(v);
    }
    pub fn hash(&self) -> u64 {
        self.hash.0
    }
    pub fn signature(&self) -> u64 {
        self.sig.0
    }
}

pub struct Outcome {
    pub violation: Option<Violation>,
    pub stats: RunStats,
    pub log_hash: u64,
    pub signature: u64,
    pub log: Vec<String>,
}

/// Context handed to `execute`.
pub struct ExecCtx<'a> {
    pub known: &'a HashSet<String>,
    pub keep_log: bool,
}

impl ExecCtx<'_> {
    pub fn is_known(&self, key: &str) -> bool {
        self.known.contains(key)
    }
}

/// Helper every oracle uses: returns `Some(v)` if the run must stop with this violation, `None`
/// if the violation matches an open known finding (counted, run continues after model re-sync).
pub fn report(
    ctx: &ExecCtx<'_>,
    stats: &mut RunStats,
    property: &str,
    rule: &str,
    step: usize,
    detail: String,
    finding_key: Option<&str>,
) -> Option<Violation> {
    if let Some(key) = finding_key {
        if ctx.is_known(key) {
            *stats.known.entry(key.to_string()).or_default() += 1;
            return None;
        }
    }
    Some(Violation {
        property: property.to_string(),
        rule: rule.to_string(),
        step,
        detail,
        finding_key: finding_key.map(str::to_string),
    })
}

// ------------------------------------------------------------------------------------------------
// Sim trait
// ------------------------------------------------------------------------------------------------

pub trait Sim: Sync {
    type Scenario: Clone + Serialize + DeserializeOwned + Send;

    fn name(&self) -> &'static str;
    fn property(&self) -> &'static str;
    /// Names of the sub-batches (fault-free / faulty / ...); run `i` belongs to sub-batch
    /// `i % sub_batches().len()`.
    fn sub_batches(&self) -> Vec<&'static str>;
    /// Sub-batch of run `i` (default: round robin).
    fn sub_batch_of(&self, i: u64) -> usize {
        (i as usize) % self.sub_batches().len().max(1)
    }
    fn plan(&self, rng: &mut Rng, sub_batch: usize) -> Self::Scenario;
    fn execute(&self, sc: &Self::Scenario, ctx: &ExecCtx<'_>) -> Outcome;

    /// Number of removable steps (operations / faults) for delta debugging.
    fn shrink_len(&self, sc: &Self::Scenario) -> usize;
    /// Scenario with removable steps `[from, to)` dropped.
    fn shrink_remove(&self, sc: &Self::Scenario, from: usize, to: usize) -> Self::Scenario;
    /// Simpler variants (smaller delays, fewer parties, hooks off, ...), most aggressive first.
    fn simplify(&self, _sc: &Self::Scenario) -> Vec<Self::Scenario> {
        Vec::new()
    }

    fn rule_text(&self) -> String;
    fn components_real(&self) -> Vec<&'static str>;
    fn components_stub(&self) -> Vec<&'static str>;
    fn fault_kinds(&self) -> Vec<&'static str>;
    fn probe_kinds(&self) -> Vec<&'static str>;
    fn assumptions(&self) -> Vec<String> {
        Vec::new()
    }
    /// Default number of runs for (quick, thorough).
    fn default_runs(&self) -> (u64, u64);
}

// ------------------------------------------------------------------------------------------------
// Options, known findings
// ------------------------------------------------------------------------------------------------

#[derive(Clone, Debug)]
pub struct Opts {
    pub tier: String,
    pub seed: u64,
    pub runs: Option<u64>,
    pub workers: usize,
    pub max_wall_s: f64,
    pub verif_dir: String,
    pub shrink_budget: usize,
    pub write_evidence: bool,
}

#[derive(Clone, Debug)]
pub struct KnownFinding {
    pub property: String,
    pub key: String,
    pub what: String,
}

pub fn load_known_findings(verif_dir: &str) -> Result<Vec<KnownFinding>, String> {
    let path = format!("{verif_dir}/known_findings.json");
    let text = match std::fs::read_to_string(&path) {
        Ok(t) => t,
        Err(_) => return Ok(Vec::new()),
    };
    let v: Value = serde_json::from_str(&text).map_err(|e| format!("{path}: {e}"))?;
    let mut out = Vec::new();
    if let Some(items) = v.get("findings").and_then(Value::as_array) {
        for it in items {
            let status = it.get("status").and_then(Value::as_str).unwrap_or("");
            if status != "open" {
                // "fixed" entries suppress nothing
                continue;
            }
            out.push(KnownFinding {
                property: it
                    .get("property")
                    .and_then(Value::as_str)
                    .unwrap_or("")
                    .to_string(),
                key: it.get("key").and_then(Value::as_str).unwrap_or("").to_string(),
                what: it.get("what").and_then(Value::as_str).unwrap_or("").to_string(),
            });
        }
    }
    Ok(out)
}

// ------------------------------------------------------------------------------------------------
// Execution with panic capture
// ------------------------------------------------------------------------------------------------

pub fn silence_panics() {
    std::panic::set_hook(Box::new(|_| {}));
}

fn execute_caught<S: Sim>(sim: &S, sc: &S::Scenario, ctx: &ExecCtx<'_>) -> Outcome {
    match catch_unwind(AssertUnwindSafe(|| sim.execute(sc, ctx))) {
        Ok(o) => o,
        Err(p) => {
            let msg = if let Some(s) = p.downcast_ref::<&str>() {
                s.to_string()
            } else if let Some(s) = p.downcast_ref::<String>() {
                s.clone()
            } else {
                "non-string panic".to_string()
            };
            let mut h = Fnv::default();
            h.str(&msg);
            Outcome {
                violation: Some(Violation {
                    property: sim.property().to_string(),
                    rule: "PANIC".to_string(),
                    step: 0,
                    detail: format!("panic during simulated run: {msg}"),
                    finding_key: None,
                }),
                stats: RunStats::default(),
                log_hash: h.0,
                signature: h.0,
                log: vec![],
            }
        }
    }
}

// ------------------------------------------------------------------------------------------------
// Shrinker (delta debugging on the scenario data, same oracle rule must keep firing)
// ------------------------------------------------------------------------------------------------

/// How many runs before a violating one are replayed as its possible process history.
const HISTORY_WINDOW: u64 = 600;

pub fn shrink<S: Sim>(
    sim: &S,
    sc: S::Scenario,
    rule: &str,
    ctx: &ExecCtx<'_>,
    budget: usize,
) -> (S::Scenario, usize) {
    let mut cur = sc;
    let mut used = 0usize;
    let still_fails = |cand: &S::Scenario, used: &mut usize| -> bool {
        *used += 1;
        let o = execute_caught(sim, cand, ctx);
        matches!(o.violation, Some(v) if v.rule == rule)
    };
    loop {
        let mut progress = false;
        // 1. ddmin over removable steps
        let mut chunk = (sim.shrink_len(&cur) / 2).max(1);
        loop {
            let n = sim.shrink_len(&cur);
            if n == 0 {
                break;
            }
            let mut i = 0usize;
            let mut removed_any = false;
            while i < sim.shrink_len(&cur) && used < budget {
                let n = sim.shrink_len(&cur);
                let to = (i + chunk).min(n);
                let cand = sim.shrink_remove(&cur, i, to);
                if still_fails(&cand, &mut used) {
                    cur = cand;
                    removed_any = true;
                    progress = true;
                } else {
                    i = to;
                }
            }
            if used >= budget {
                break;
            }
            if chunk == 1 {
                if !removed_any {
                    break;
                }
            } else {
                chunk = (chunk / 2).max(1);
            }
        }
        // 2. simplifications
        let mut simplified = true;
        while simplified && used < budget {
            simplified = false;
            for cand in sim.simplify(&cur) {
                if used >= budget {
                    break;
                }
                if still_fails(&cand, &mut used) {
                    cur = cand;
                    simplified = true;
                    progress = true;
                    break;
                }
            }
        }
        if !progress || used >= budget {
            break;
        }
    }
    (cur, used)
}

// ------------------------------------------------------------------------------------------------
// Batch runner
// ------------------------------------------------------------------------------------------------

struct WorkerAcc<Sc> {
    stats: RunStats,
    evaluations: u64,
    signatures: HashSet<u64>,
    nontrivial: HashSet<u64>,
    violations: Vec<(u64, Sc, Violation)>,
    det_runs: u64,
    det_mismatch: Vec<u64>,
    samples: Vec<(u64, Sc)>,
    per_sub: BTreeMap<usize, u64>,
    /// (run index, event-log hash) of every run: the batch digest must not depend on worker count
    hashes: Vec<(u64, u64)>,
}

pub struct BatchReport {
    pub exit_code: i32,
}

pub fn run_batch<S: Sim>(sim: &S, opts: &Opts) -> BatchReport {
    let t0 = Instant::now();
    let known = match load_known_findings(&opts.verif_dir) {
        Ok(k) => k,
        Err(e) => {
            eprintln!("HARNESS-ERROR: {e}");
            return BatchReport { exit_code: 2 };
        }
    };
    let known_keys: HashSet<String> = known
        .iter()
        .filter(|k| k.property == sim.property())
        .map(|k| k.key.clone())
        .collect();

    let (dq, dt) = sim.default_runs();
    let runs = opts.runs.unwrap_or(if opts.tier == "thorough" { dt } else { dq });
    let subs = sim.sub_batches();
    let _ = &subs;
    let next = AtomicU64::new(0);
    let deadline = opts.max_wall_s;
    let accs: Mutex<Vec<WorkerAcc<S::Scenario>>> = Mutex::new(Vec::new());
    println!(
        "simcheck property={} sim={} tier={} VERIF_SEED={} runs={} workers={}",
        sim.property(),
        sim.name(),
        opts.tier,
        opts.seed,
        runs,
        opts.workers
    );

    // watchdog: a run that never returns (a simulator bug, or code under test spinning without
    // consuming virtual time) must not hang the check: report a harness error and exit 2
    let slots: Vec<std::sync::atomic::AtomicU64> = (0..opts.workers).map(|_| AtomicU64::new(u64::MAX)).collect();
    let slot_started: Vec<std::sync::atomic::AtomicU64> = (0..opts.workers).map(|_| AtomicU64::new(0)).collect();
    let finished = std::sync::atomic::AtomicBool::new(false);
    let worker_ids = AtomicU64::new(0);
    std::thread::scope(|scope| {
        scope.spawn(|| {
            while !finished.load(Ordering::Relaxed) {
                std::thread::sleep(std::time::Duration::from_millis(250));
                let now = t0.elapsed().as_millis() as u64;
                for (w, s) in slots.iter().enumerate() {
                    let idx = s.load(Ordering::Relaxed);
                    let st = slot_started[w].load(Ordering::Relaxed);
                    if idx != u64::MAX && now.saturating_sub(st) > 180_000 {
                        eprintln!("HARNESS-ERROR: run index {idx} (seed {}) did not finish within 180 s of wall time", mix(opts.seed, idx));
                        std::process::exit(2);
                    }
                }
            }
        });
        let mut handles = Vec::new();
        for _ in 0..opts.workers {
            handles.push(scope.spawn(|| {
                let my = worker_ids.fetch_add(1, Ordering::Relaxed) as usize;
                let ctx = ExecCtx {
                    known: &known_keys,
                    keep_log: false,
                };
                let mut acc = WorkerAcc {
                    stats: RunStats::default(),
                    evaluations: 0,
                    signatures: HashSet::new(),
                    nontrivial: HashSet::new(),
                    violations: Vec::new(),
                    det_runs: 0,
                    det_mismatch: Vec::new(),
                    samples: Vec::new(),
                    per_sub: BTreeMap::new(),
                    hashes: Vec::new(),
                };
                loop {
                    let i = next.fetch_add(1, Ordering::Relaxed);
                    if i >= runs {
                        break;
                    }
                    if t0.elapsed().as_secs_f64() > deadline {
                        break;
                    }
                    slot_started[my].store(t0.elapsed().as_millis() as u64, Ordering::Relaxed);
                    slots[my].store(i, Ordering::Relaxed);
                    let run_seed = mix(opts.seed, i);
                    let sub = sim.sub_batch_of(i);
                    let mut rng = Rng::new(run_seed);
                    let sc = sim.plan(&mut rng, sub);
                    let out = execute_caught(sim, &sc, &ctx);
                    acc.evaluations += 1;
                    acc.hashes.push((i, out.log_hash ^ out.signature.rotate_left(32)));
                    *acc.per_sub.entry(sub).or_default() += 1;
                    acc.stats.merge(&out.stats);
                    acc.signatures.insert(out.signature);
                    let any_fault = out.stats.faults.values().any(|v| *v > 0);
                    let any_probe = out.stats.probes.values().any(|v| *v > 0);
                    if any_fault && any_probe {
                        acc.nontrivial.insert(out.signature);
                    }
                    if i < 3 {
                        acc.samples.push((i, sc.clone()));
                    }
                    if i % 97 == 0 {
                        // determinism re-check: same scenario, fresh execution, same log hash
                        let again = execute_caught(sim, &sc, &ctx);
                        acc.det_runs += 1;
                        if again.log_hash != out.log_hash {
                            acc.det_mismatch.push(i);
                        }
                    }
                    if let Some(v) = out.violation {
                        if acc.violations.len() < 8 {
                            acc.violations.push((i, sc, v));
                        }
                    }
                }
                slots[my].store(u64::MAX, Ordering::Relaxed);
                accs.lock().unwrap().push(acc);
            }));
        }
        for h in handles {
            let _ = h.join();
        }
        finished.store(true, Ordering::Relaxed);
    });

    let accs = accs.into_inner().unwrap();
    let mut stats = RunStats::default();
    let mut evaluations = 0u64;
    let mut signatures: HashSet<u64> = HashSet::new();
    let mut nontrivial: HashSet<u64> = HashSet::new();
    let mut violations: Vec<(u64, S::Scenario, Violation)> = Vec::new();
    let mut det_runs = 0;
    let mut det_mismatch: Vec<u64> = Vec::new();
    let mut samples: Vec<(u64, S::Scenario)> = Vec::new();
    let mut per_sub: BTreeMap<usize, u64> = BTreeMap::new();
    let mut hashes: Vec<(u64, u64)> = Vec::new();
    for a in accs {
        hashes.extend(a.hashes.iter().copied());
        stats.merge(&a.stats);
        evaluations += a.evaluations;
        signatures.extend(a.signatures);
        nontrivial.extend(a.nontrivial);
        violations.extend(a.violations);
        det_runs += a.det_runs;
        det_mismatch.extend(a.det_mismatch);
        samples.extend(a.samples);
        for (k, v) in a.per_sub {
            *per_sub.entry(k).or_default() += v;
        }
    }
    violations.sort_by_key(|(i, _, _)| *i);
    samples.sort_by_key(|(i, _)| *i);
    hashes.sort();
    let mut batch = Fnv::default();
    for (i, h) in &hashes {
        batch.u64(*i);
        batch.u64(*h);
    }
    let batch_hash = batch.0;
    det_mismatch.sort();

    let mut exit_code = 0;
    let mut state_leak_note: Option<String> = None;
    if !det_mismatch.is_empty() {
        // Is the simulator nondeterministic, or does the code under test keep state across the runs
        // of one process (a process-wide static)? Execute a few of those scenarios in fresh
        // processes, twice each: if each is deterministic on its own, it is the latter.
        let _ = std::fs::create_dir_all(format!("{}/replays", opts.verif_dir));
        let mut alone_deterministic = true;
        for i in det_mismatch.iter().take(3) {
            let mut rng = Rng::new(mix(opts.seed, *i));
            let sc = sim.plan(&mut rng, sim.sub_batch_of(*i));
            let path = format!("{}/replays/.recheck-{}-{}-{}.json", opts.verif_dir, sim.property(), opts.seed, i);
            let a = fresh_exec(sim, &sc, &path, &opts.verif_dir);
            let b = fresh_exec(sim, &sc, &path, &opts.verif_dir);
            let _ = std::fs::remove_file(&path);
            match (a, b) {
                (Some(a), Some(b)) if a.log_hash == b.log_hash && a.violation == b.violation => {}
                _ => alone_deterministic = false,
            }
        }
        if alone_deterministic {
            let note = format!(
                "re-executing runs {:?} inside the batch gave a different event log although each is deterministic in a fresh process: the code under test keeps state across the runs of one process",
                &det_mismatch[..det_mismatch.len().min(5)]
            );
            println!("NOTE: {note}");
            state_leak_note = Some(note);
        } else {
            eprintln!(
                "HARNESS-ERROR: determinism re-check mismatch on run indices {:?}",
                &det_mismatch[..det_mismatch.len().min(5)]
            );
            exit_code = 2;
        }
    }

    // Known findings: one line each
    for (key, count) in &stats.known {
        let what = known
            .iter()
            .find(|k| &k.key == key && k.property == sim.property())
            .map(|k| k.what.clone())
            .unwrap_or_default();
        println!(
            "KNOWN-FINDING: property={} key={} occurrences={} {}",
            sim.property(),
            key,
            count,
            what
        );
    }

    // Violations: lowest run index first, one per distinct rule, at most 3, each minimised
    let ctx = ExecCtx {
        known: &known_keys,
        keep_log: false,
    };
    let mut reported_rules: BTreeSet<String> = BTreeSet::new();
    let mut replay_files: Vec<String> = Vec::new();
    let _ = std::fs::create_dir_all(format!("{}/replays", opts.verif_dir));
    // rules whose first candidates could not be reproduced in a fresh process: rule -> attempts
    let mut unreproduced: BTreeMap<String, (u32, u64)> = BTreeMap::new();
    for (i, sc, v) in &violations {
        if reported_rules.contains(&v.rule) || reported_rules.len() >= 3 {
            continue;
        }
        if unreproduced.get(&v.rule).is_some_and(|(n, _)| *n >= 6) {
            continue;
        }
        let (min_sc, used) = shrink(sim, sc.clone(), &v.rule, &ctx, opts.shrink_budget);
        // re-execute the minimised scenario twice with the full log; must agree
        let ctx_log = ExecCtx {
            known: &known_keys,
            keep_log: true,
        };
        let _ = &ctx_log;
        // What gets reported is what a fresh process reproduces (that is what `--replay` runs):
        // the minimised scenario, executed twice in fresh processes, must give the same violation of
        // the same rule and the same event log. If it does not (the in-batch violation leaned on
        // state the code under test keeps across runs), fall back to the unminimised scenario.
        let cand = format!("{}/replays/.cand-{}-{}-{}.json", opts.verif_dir, sim.property(), opts.seed, i);
        let fresh_pair = |sc: &S::Scenario| -> Option<FreshResult> {
            let a = fresh_exec(sim, sc, &cand, &opts.verif_dir)?;
            let b = fresh_exec(sim, sc, &cand, &opts.verif_dir)?;
            if a.violation.is_some() && a.violation == b.violation && a.log_hash == b.log_hash {
                return Some(a);
            }
            // the same rule breaks in both executions but the details differ: the code under test reads
            // something the simulator does not own (a real clock, an address, process-wide state)
            match (&a.violation, &b.violation) {
                (Some(x), Some(y)) if x.rule == y.rule => {
                    let mut a = a;
                    if let Some(v) = a.violation.as_mut() {
                        v.detail = format!("{} [details differ between two executions of the same scenario: the code under test depends on something outside the simulation]", v.detail);
                    }
                    Some(a)
                }
                _ => None,
            }
        };
        let mut history: Vec<S::Scenario> = Vec::new();
        let (min_sc, r1, minimised) = match fresh_pair(&min_sc).filter(|r| r.violation.as_ref().is_some_and(|x| x.rule == v.rule)) {
            Some(r) => (min_sc, r, true),
            None => match fresh_pair(sc) {
                Some(r) => (sc.clone(), r, false),
                None => {
                    // Not reproducible on its own. Does it lean on what earlier simulations left behind
                    // in this process (a process-wide static in the code under test)? Execute the runs
                    // before it in a fresh process, in order, then the scenario; if that breaks the
                    // same rule, minimise the history (ddmin) and report the sequence.
                    let first = i.saturating_sub(HISTORY_WINDOW);
                    let mut hist: Vec<S::Scenario> = (first..*i)
                        .map(|j| {
                            let mut rng = Rng::new(mix(opts.seed, j));
                            sim.plan(&mut rng, sim.sub_batch_of(j))
                        })
                        .collect();
                    let breaks = |h: &[S::Scenario]| -> Option<FreshResult> {
                        fresh_exec_after(sim, h, sc, &cand, &opts.verif_dir).filter(|r| r.violation.as_ref().is_some_and(|x| x.rule == v.rule))
                    };
                    match breaks(&hist) {
                        Some(_) => {
                            let mut chunk = (hist.len() / 2).max(1);
                            let mut budget = 400usize;
                            loop {
                                let mut k = 0usize;
                                let mut removed = false;
                                while k < hist.len() && budget > 0 {
                                    let to = (k + chunk).min(hist.len());
                                    let mut c = hist.clone();
                                    c.drain(k..to);
                                    budget -= 1;
                                    if breaks(&c).is_some() {
                                        hist = c;
                                        removed = true;
                                    } else {
                                        k = to;
                                    }
                                }
                                if budget == 0 || (chunk == 1 && !removed) {
                                    break;
                                }
                                if !removed {
                                    chunk = (chunk / 2).max(1);
                                }
                            }
                            // twice, identically
                            match (breaks(&hist), breaks(&hist)) {
                                (Some(a), Some(b)) if a.violation == b.violation && a.log_hash == b.log_hash => {
                                    let mut a = a;
                                    if let Some(x) = a.violation.as_mut() {
                                        x.detail = format!(
                                            "{} [only after {} earlier simulation(s) in the same process: the code under test keeps state across independent runs; the replay file lists them under \"history\"]",
                                            x.detail,
                                            hist.len()
                                        );
                                    }
                                    history = hist;
                                    (sc.clone(), a, false)
                                }
                                _ => {
                                    let _ = std::fs::remove_file(&cand);
                                    let e = unreproduced.entry(v.rule.clone()).or_insert((0, *i));
                                    e.0 += 1;
                                    continue;
                                }
                            }
                        }
                        None => {
                            // try the next run that broke the same rule
                            let _ = std::fs::remove_file(&cand);
                            let e = unreproduced.entry(v.rule.clone()).or_insert((0, *i));
                            e.0 += 1;
                            continue;
                        }
                    }
                }
            },
        };
        let _ = std::fs::remove_file(&cand);
        reported_rules.insert(v.rule.clone());
        unreproduced.remove(&v.rule);
        let v1 = r1.violation.clone().expect("checked");
        let v1 = &v1;
        let path = format!(
            "{}/replays/{}-{}-{}.json",
            opts.verif_dir,
            sim.property(),
            opts.seed,
            i
        );
        let file = json!({
            "property": sim.property(),
            "sim": sim.name(),
            "verif_seed": opts.seed,
            "run_index": i,
            "run_seed": mix(opts.seed, *i),
            "sub_batch": subs.get(sim.sub_batch_of(*i)),
            "violation": v1,
            "original_violation": v,
            "shrink_executions": used,
            "minimised": minimised,
            "log_hash": r1.log_hash,
            "scenario": min_sc,
            "history": history,
            "log": r1.log,
        });
        if let Err(e) = std::fs::write(&path, serde_json::to_string_pretty(&file).unwrap()) {
            eprintln!("HARNESS-ERROR: cannot write {path}: {e}");
            exit_code = 2;
            continue;
        }
        println!(
            "VIOLATION property={} replay={} rule={} step={} detail={}",
            sim.property(),
            path,
            v1.rule,
            v1.step,
            v1.detail.replace('\n', " ")
        );
        replay_files.push(path);
        if exit_code == 0 {
            exit_code = 1;
        }
    }

    if reported_rules.is_empty() && !unreproduced.is_empty() && opts.workers > 1 && std::env::var("SIMCHECK_CHILD").is_err() {
        // Every candidate leaned on other simulations running in this process (the code under test
        // shares process-global state between independent runs). Search again in a child process with
        // a single worker, where only one simulation runs at a time.
        println!("NOTE: violations seen inside the batch do not reproduce in a fresh process; searching again with one worker in a child process");
        if let Ok(exe) = std::env::current_exe() {
            let child = std::process::Command::new(exe)
                .args([
                    "run",
                    sim.property(),
                    "--tier",
                    &opts.tier,
                    "--seed",
                    &opts.seed.to_string(),
                    "--runs",
                    &runs.min(300_000).to_string(),
                    "--workers",
                    "1",
                    "--max-wall-s",
                    "90",
                    "--no-evidence",
                    "--verif-dir",
                    &opts.verif_dir,
                ])
                .env("SIMCHECK_CHILD", "1")
                .output();
            if let Ok(out) = child {
                let text = String::from_utf8_lossy(&out.stdout);
                for l in text.lines().filter(|l| l.starts_with("VIOLATION ")) {
                    println!("{l}");
                    if let Some(p) = l.split_whitespace().find_map(|w| w.strip_prefix("replay=")) {
                        replay_files.push(p.to_string());
                    }
                    reported_rules.insert(l.to_string());
                    if exit_code == 0 {
                        exit_code = 1;
                    }
                }
            }
        }
    }
    if reported_rules.is_empty() {
        for (rule, (n, first)) in &unreproduced {
            eprintln!("HARNESS-ERROR: violations of rule {rule} (first: run {first}, {n} candidates tried) are not reproducible in a fresh process");
            exit_code = 2;
        }
    } else {
        for (rule, (n, first)) in &unreproduced {
            println!("NOTE: violations of rule {rule} seen inside the batch (first: run {first}, {n} candidates tried) did not reproduce in a fresh process");
        }
    }
    let wall = t0.elapsed().as_secs_f64();
    if opts.write_evidence {
        let zero_probes: Vec<&str> = sim
            .probe_kinds()
            .into_iter()
            .filter(|p| stats.probes.get(p).copied().unwrap_or(0) == 0)
            .collect();
        let zero_faults: Vec<&str> = sim
            .fault_kinds()
            .into_iter()
            .filter(|p| stats.faults.get(p).copied().unwrap_or(0) == 0)
            .collect();
        let sample_vals: Vec<Value> = samples
            .iter()
            .map(|(i, sc)| json!({"run_index": i, "run_seed": mix(opts.seed, *i), "scenario": sc}))
            .collect();
        let per_sub_named: BTreeMap<String, u64> = per_sub
            .iter()
            .map(|(k, v)| (subs.get(*k).copied().unwrap_or("?").to_string(), *v))
            .collect();
        let ev = json!({
            "property_id": sim.property(),
            "tier": if opts.tier == "thorough" { "thorough" } else { "quick" },
            "seed": opts.seed,
            "level": "exploration",
            "wall_s": wall,
            "violations": violations.len(),
            "assumptions": sim.assumptions(),
            "coverage": {
                "evaluations": evaluations,
                "distinct_nontrivial": nontrivial.len(),
                "rule": sim.rule_text(),
                "samples": sample_vals,
                "simulator": sim.name(),
                "runs_requested": runs,
                "runs": evaluations,
                "runs_per_sub_batch": per_sub_named,
                "runs_per_hour": if wall > 0.0 { (evaluations as f64 / wall * 3600.0) as u64 } else { 0 },
                "seeds": format!("run i uses mix(VERIF_SEED={}, i), i in 0..{}", opts.seed, evaluations),
                "sim_time_covered_s": stats.sim_time_ms as f64 / 1000.0,
                "steps_total": stats.steps,
                "fault_counts_fired": stats.faults,
                "fault_kinds_never_fired": zero_faults,
                "probes": stats.probes,
                "probes_stuck_at_zero": zero_probes,
                "distinct_signatures": signatures.len(),
                "distinct_signature_measure": "FNV hash of each run's ordering skeleton: sequence of (actor, message kind, fault tag), values and timestamps stripped",
                "components": {"real": sim.components_real(), "stub": sim.components_stub()},
                "determinism_recheck": {"runs": det_runs, "mismatches": det_mismatch.len(), "note": state_leak_note},
                "batch_event_log_digest": format!("{batch_hash:016x}"),
                "known_findings_seen": stats.known,
                "replay_files": replay_files,
                "workers": opts.workers,
            }
        });
        let dir = format!("{}/evidence", opts.verif_dir);
        let _ = std::fs::create_dir_all(&dir);
        let path = format!("{dir}/{}.json", sim.property());
        if let Err(e) = std::fs::write(&path, serde_json::to_string_pretty(&ev).unwrap()) {
            eprintln!("HARNESS-ERROR: cannot write evidence {path}: {e}");
            exit_code = 2;
        }
    }
    println!(
        "done property={} evaluations={} distinct_signatures={} distinct_nontrivial={} violations={} known={} batch_digest={:016x} wall_s={:.1} exit={}",
        sim.property(),
        evaluations,
        signatures.len(),
        nontrivial.len(),
        violations.len(),
        stats.known.values().sum::<u64>(),
        batch_hash,
        wall,
        exit_code
    );
    BatchReport { exit_code }
}

/// Print the scenario planned for run `i` of a batch (debug aid).
pub fn print_plan<S: Sim>(sim: &S, seed: u64, i: u64) {
    let mut rng = Rng::new(mix(seed, i));
    let sc = sim.plan(&mut rng, sim.sub_batch_of(i));
    println!("{}", serde_json::to_string(&json!({"property": sim.property(), "scenario": sc})).unwrap());
}

// ------------------------------------------------------------------------------------------------
// Replay
// ------------------------------------------------------------------------------------------------

pub fn replay<S: Sim>(sim: &S, file: &Value, verif_dir: &str) -> i32 {
    let known = load_known_findings(verif_dir).unwrap_or_default();
    let known_keys: HashSet<String> = known
        .iter()
        .filter(|k| k.property == sim.property())
        .map(|k| k.key.clone())
        .collect();
    let sc: S::Scenario = match serde_json::from_value(file["scenario"].clone()) {
        Ok(s) => s,
        Err(e) => {
            eprintln!("HARNESS-ERROR: replay scenario does not parse: {e}");
            return 2;
        }
    };
    let ctx = ExecCtx {
        known: &known_keys,
        keep_log: true,
    };
    let n_hist = run_history(sim, file, &ctx);
    if n_hist > 0 {
        println!("  (executed {n_hist} earlier scenario(s) of the recorded history in this process first)");
    }
    let out = execute_caught(sim, &sc, &ctx);
    for l in &out.log {
        println!("  {l}");
    }
    let recorded: Option<Violation> = serde_json::from_value(file["violation"].clone()).ok();
    match (&out.violation, recorded) {
        (Some(v), Some(r)) => {
            let same = v.rule == r.rule && v.step == r.step && v.detail == r.detail;
            let same_hash = file["log_hash"].as_u64() == Some(out.log_hash);
            println!(
                "REPLAY property={} rule={} step={} detail={}",
                v.property, v.rule, v.step, v.detail
            );
            println!(
                "REPLAY reproduces_recorded_violation={} identical_event_log={}",
                same, same_hash
            );
            1
        }
        (Some(v), None) => {
            println!(
                "REPLAY property={} rule={} step={} detail={}",
                v.property, v.rule, v.step, v.detail
            );
            1
        }
        (None, _) => {
            println!("REPLAY no violation on this tree (log_hash={})", out.log_hash);
            0
        }
    }
}


// ------------------------------------------------------------------------------------------------
// Two simulators deciding one property: `a` gets most runs, every `every`-th run goes to `b`
// ------------------------------------------------------------------------------------------------

pub struct Plus<A, B> {
    pub a: A,
    pub b: B,
    /// run i goes to `b` when i % every == every - 1 (every == 1: all runs)
    pub every: u64,
    pub name: &'static str,
}

#[derive(Clone, Serialize, serde::Deserialize)]
pub enum PlusSc<X, Y> {
    A(X),
    B(Y),
}

impl<A: Sim, B: Sim> Sim for Plus<A, B> {
    type Scenario = PlusSc<A::Scenario, B::Scenario>;

    fn name(&self) -> &'static str {
        self.name
    }
    fn property(&self) -> &'static str {
        self.a.property()
    }
    fn sub_batches(&self) -> Vec<&'static str> {
        let mut v = self.a.sub_batches();
        v.extend(self.b.sub_batches());
        v
    }
    fn sub_batch_of(&self, i: u64) -> usize {
        let na = self.a.sub_batches().len().max(1);
        let nb = self.b.sub_batches().len().max(1);
        let every = self.every.max(1);
        if i % every == every - 1 {
            na + ((i / every) as usize) % nb
        } else {
            (i as usize) % na
        }
    }
    fn plan(&self, rng: &mut Rng, sub_batch: usize) -> Self::Scenario {
        let na = self.a.sub_batches().len().max(1);
        if sub_batch < na {
            PlusSc::A(self.a.plan(rng, sub_batch))
        } else {
            PlusSc::B(self.b.plan(rng, sub_batch - na))
        }
    }
    fn execute(&self, sc: &Self::Scenario, ctx: &ExecCtx<'_>) -> Outcome {
        match sc {
            PlusSc::A(s) => self.a.execute(s, ctx),
            PlusSc::B(s) => self.b.execute(s, ctx),
        }
    }
    fn shrink_len(&self, sc: &Self::Scenario) -> usize {
        match sc {
            PlusSc::A(s) => self.a.shrink_len(s),
            PlusSc::B(s) => self.b.shrink_len(s),
        }
    }
    fn shrink_remove(&self, sc: &Self::Scenario, from: usize, to: usize) -> Self::Scenario {
        match sc {
            PlusSc::A(s) => PlusSc::A(self.a.shrink_remove(s, from, to)),
            PlusSc::B(s) => PlusSc::B(self.b.shrink_remove(s, from, to)),
        }
    }
    fn simplify(&self, sc: &Self::Scenario) -> Vec<Self::Scenario> {
        match sc {
            PlusSc::A(s) => self.a.simplify(s).into_iter().map(PlusSc::A).collect(),
            PlusSc::B(s) => self.b.simplify(s).into_iter().map(PlusSc::B).collect(),
        }
    }
    fn rule_text(&self) -> String {
        format!("{} || {}", self.a.rule_text(), self.b.rule_text())
    }
    fn components_real(&self) -> Vec<&'static str> {
        let mut v = self.a.components_real();
        for x in self.b.components_real() {
            if !v.contains(&x) {
                v.push(x);
            }
        }
        v
    }
    fn components_stub(&self) -> Vec<&'static str> {
        let mut v = self.a.components_stub();
        for x in self.b.components_stub() {
            if !v.contains(&x) {
                v.push(x);
            }
        }
        v
    }
    fn fault_kinds(&self) -> Vec<&'static str> {
        let mut v = self.a.fault_kinds();
        for x in self.b.fault_kinds() {
            if !v.contains(&x) {
                v.push(x);
            }
        }
        v
    }
    fn probe_kinds(&self) -> Vec<&'static str> {
        let mut v = self.a.probe_kinds();
        for x in self.b.probe_kinds() {
            if !v.contains(&x) {
                v.push(x);
            }
        }
        v
    }
    fn assumptions(&self) -> Vec<String> {
        let mut v = self.a.assumptions();
        v.extend(self.b.assumptions());
        v
    }
    fn default_runs(&self) -> (u64, u64) {
        self.a.default_runs()
    }
}


// ------------------------------------------------------------------------------------------------
// Fresh-process execution (what `--replay` will do): immune to state the code under test may keep
// across the runs of one process
// ------------------------------------------------------------------------------------------------

#[derive(Clone, Debug, serde::Deserialize, Serialize)]
pub struct FreshResult {
    pub violation: Option<Violation>,
    pub log_hash: u64,
    pub log: Vec<String>,
}

/// Child side: `simcheck fresh <file>` prints one JSON line with the outcome of the scenario.
pub fn fresh_child<S: Sim>(sim: &S, file: &Value, verif_dir: &str) -> i32 {
    let known = load_known_findings(verif_dir).unwrap_or_default();
    let known_keys: HashSet<String> = known.iter().filter(|k| k.property == sim.property()).map(|k| k.key.clone()).collect();
    let sc: S::Scenario = match serde_json::from_value(file["scenario"].clone()) {
        Ok(s) => s,
        Err(e) => {
            eprintln!("HARNESS-ERROR: scenario does not parse: {e}");
            return 2;
        }
    };
    let ctx = ExecCtx { known: &known_keys, keep_log: true };
    run_history(sim, file, &ctx);
    let out = execute_caught(sim, &sc, &ctx);
    let r = FreshResult { violation: out.violation, log_hash: out.log_hash, log: out.log };
    println!("FRESH {}", serde_json::to_string(&r).unwrap());
    0
}

/// Scenarios a replay file lists under "history" are executed first, in order, in the same process
/// (their outcomes are not judged): the earlier life of the process, for code under test that keeps
/// state in process-wide statics.
fn run_history<S: Sim>(sim: &S, file: &Value, ctx: &ExecCtx<'_>) -> usize {
    let mut n = 0;
    if let Some(items) = file.get("history").and_then(Value::as_array) {
        for it in items {
            if let Ok(h) = serde_json::from_value::<S::Scenario>(it.clone()) {
                let _ = execute_caught(sim, &h, ctx);
                n += 1;
            }
        }
    }
    n
}

fn fresh_exec<S: Sim>(sim: &S, sc: &S::Scenario, path: &str, verif_dir: &str) -> Option<FreshResult> {
    fresh_exec_after(sim, &[], sc, path, verif_dir)
}

fn fresh_exec_after<S: Sim>(sim: &S, history: &[S::Scenario], sc: &S::Scenario, path: &str, verif_dir: &str) -> Option<FreshResult> {
    let file = json!({"property": sim.property(), "scenario": sc, "history": history});
    std::fs::write(path, serde_json::to_string(&file).ok()?).ok()?;
    let exe = std::env::current_exe().ok()?;
    let out = std::process::Command::new(exe).args(["fresh", path, "--verif-dir", verif_dir]).output().ok()?;
    let text = String::from_utf8_lossy(&out.stdout);
    let line = text.lines().find_map(|l| l.strip_prefix("FRESH "))?;
    serde_json::from_str(line).ok()
}
