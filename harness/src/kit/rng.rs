//! Self-contained PRNG (SplitMix64 seeding + xoshiro256**). No external crate so the stream is
//! stable across toolchains; one integer (VERIF_SEED) decides everything.

#[derive(Clone, Debug)]
pub struct Rng {
    s: [u64; 4],
}

pub fn splitmix(x: &mut u64) -> u64 {
    *x = x.wrapping_add(0x9E37_79B9_7F4A_7C15);
    let mut z = *x;
    z = (z ^ (z >> 30)).wrapping_mul(0xBF58_476D_1CE4_E5B9);
    z = (z ^ (z >> 27)).wrapping_mul(0x94D0_49BB_1331_11EB);
    z ^ (z >> 31)
}

/// Derive the seed of run `i` of a batch from the batch seed.
pub fn mix(seed: u64, i: u64) -> u64 {
    let mut x = seed ^ i.wrapping_mul(0xD6E8_FEB8_6659_FD93).rotate_left(17);
    let a = splitmix(&mut x);
    let b = splitmix(&mut x);
    a ^ b.rotate_left(23)
}

impl Rng {
    pub fn new(seed: u64) -> Self {
        let mut x = seed;
        let s = [
            splitmix(&mut x),
            splitmix(&mut x),
            splitmix(&mut x),
            splitmix(&mut x),
        ];
        Self { s }
    }

    pub fn next_u64(&mut self) -> u64 {
        let result = self.s[1].wrapping_mul(5).rotate_left(7).wrapping_mul(9);
        let t = self.s[1] << 17;
        self.s[2] ^= self.s[0];
        self.s[3] ^= self.s[1];
        self.s[1] ^= self.s[2];
        self.s[0] ^= self.s[3];
        self.s[2] ^= t;
        self.s[3] = self.s[3].rotate_left(45);
        result
    }

    /// Uniform in [0, n). n == 0 returns 0.
    pub fn below(&mut self, n: u64) -> u64 {
        if n == 0 {
            return 0;
        }
        // multiply-shift; bias is irrelevant for simulation purposes
        ((self.next_u64() as u128 * n as u128) >> 64) as u64
    }

    pub fn usize(&mut self, n: usize) -> usize {
        self.below(n as u64) as usize
    }

    /// Uniform in [lo, hi] inclusive.
    pub fn range(&mut self, lo: i64, hi: i64) -> i64 {
        debug_assert!(lo <= hi);
        lo + self.below((hi - lo + 1) as u64) as i64
    }

    pub fn chance(&mut self, num: u64, den: u64) -> bool {
        self.below(den) < num
    }

    pub fn pick<'a, T>(&mut self, xs: &'a [T]) -> &'a T {
        &xs[self.usize(xs.len())]
    }

    pub fn shuffle<T>(&mut self, xs: &mut [T]) {
        for i in (1..xs.len()).rev() {
            let j = self.usize(i + 1);
            xs.swap(i, j);
        }
    }

    pub fn fork(&mut self) -> Rng {
        Rng::new(self.next_u64())
    }
}

/// FNV-1a 64 incremental hasher used for log hashes and signatures (fixed, no random state).
#[derive(Clone, Copy, Debug)]
pub struct Fnv(pub u64);

impl Default for Fnv {
    fn default() -> Self {
        Fnv(0xcbf2_9ce4_8422_2325)
    }
}

impl Fnv {
    pub fn bytes(&mut self, b: &[u8]) {
        for x in b {
            self.0 ^= *x as u64;
            self.0 = self.0.wrapping_mul(0x0000_0100_0000_01B3);
        }
    }
    pub fn str(&mut self, s: &str) {
        self.bytes(s.as_bytes());
        self.bytes(&[0xff]);
    }
    pub fn u64(&mut self, v: u64) {
        self.bytes(&v.to_le_bytes());
    }
}
