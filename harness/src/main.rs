//! simcheck — deterministic simulation with fault injection for barter-rs.
//!
//! usage: simcheck run <PROPERTY> [--tier quick|thorough] [--seed N] [--runs N] [--workers N]
//!                                [--verif-dir DIR] [--max-wall-s S] [--no-evidence]
//!        simcheck replay <FILE> [--verif-dir DIR]
//! exit:  0 property held on everything explored, 1 violation (VIOLATION line printed),
//!        2 harness error (never a verdict).

mod engine_world;
mod kit;
mod sim_a;
mod sim_b;
mod sim_c;
mod sim_client;
mod sim_d1;
mod sim_d2;
mod sim_e;
mod sim_f;
mod sim_g;
mod sim_h;
mod world;

use kit::Opts;

fn arg_val(args: &[String], name: &str) -> Option<String> {
    args.iter()
        .position(|a| a == name)
        .and_then(|i| args.get(i + 1).cloned())
}

/// Expands `$body` with `$s` bound to the simulator registered for `$prop`.
/// C01 C03 C07 C10 C14 are decided by their own simulator plus the whole-system simulator (H),
/// which gets every N-th run; `H:<ID>` runs the whole-system part alone.
macro_rules! with_sim {
    ($prop:expr, $s:ident => $body:expr, $other:ident => $else:expr) => {
        match $prop {
            "C01" => { let $s = &kit::Plus { a: sim_a::SimA { prop: sim_a::PropA::C01 }, b: sim_h::SimH { prop: sim_h::PropH::C01 }, every: 40, name: "A:exchange-report-delivery + H:whole-system(virtual time)" }; $body }
            "H:C01" => { let $s = &kit::Plus { a: sim_a::SimA { prop: sim_a::PropA::C01 }, b: sim_h::SimH { prop: sim_h::PropH::C01 }, every: 1, name: "H:whole-system(virtual time)" }; $body }
            "C09" => { let $s = &kit::Plus { a: sim_a::SimA { prop: sim_a::PropA::C09 }, b: sim_h::SimH { prop: sim_h::PropH::C09 }, every: 40, name: "A:exchange-report-delivery + H:whole-system(virtual time)" }; $body }
            "H:C09" => { let $s = &kit::Plus { a: sim_a::SimA { prop: sim_a::PropA::C09 }, b: sim_h::SimH { prop: sim_h::PropH::C09 }, every: 1, name: "H:whole-system(virtual time)" }; $body }
            "C03" => { let $s = &kit::Plus { a: sim_b::SimB { prop: sim_b::PropB::C03 }, b: sim_h::SimH { prop: sim_h::PropH::C03 }, every: 10, name: "B:engine+execution-links + H:whole-system(virtual time)" }; $body }
            "H:C03" => { let $s = &kit::Plus { a: sim_b::SimB { prop: sim_b::PropB::C03 }, b: sim_h::SimH { prop: sim_h::PropH::C03 }, every: 1, name: "H:whole-system(virtual time)" }; $body }
            "C14" => { let $s = &kit::Plus { a: sim_b::SimB { prop: sim_b::PropB::C14 }, b: sim_h::SimH { prop: sim_h::PropH::C14 }, every: 20, name: "B:engine+execution-links + H:whole-system(virtual time)" }; $body }
            "H:C14" => { let $s = &kit::Plus { a: sim_b::SimB { prop: sim_b::PropB::C14 }, b: sim_h::SimH { prop: sim_h::PropH::C14 }, every: 1, name: "H:whole-system(virtual time)" }; $body }
            "C15" => { let $s = &kit::Plus { a: sim_b::SimB { prop: sim_b::PropB::C15 }, b: sim_h::SimH { prop: sim_h::PropH::C15 }, every: 25, name: "B:engine+execution-links + H:whole-system(virtual time)" }; $body }
            "H:C15" => { let $s = &kit::Plus { a: sim_b::SimB { prop: sim_b::PropB::C15 }, b: sim_h::SimH { prop: sim_h::PropH::C15 }, every: 1, name: "H:whole-system(virtual time)" }; $body }
            "C19" => { let $s = &kit::Plus { a: sim_b::SimB { prop: sim_b::PropB::C19 }, b: sim_h::SimH { prop: sim_h::PropH::C19 }, every: 10, name: "B:engine+execution-links + H:whole-system(virtual time)" }; $body }
            "H:C19" => { let $s = &kit::Plus { a: sim_b::SimB { prop: sim_b::PropB::C19 }, b: sim_h::SimH { prop: sim_h::PropH::C19 }, every: 1, name: "H:whole-system(virtual time)" }; $body }
            "C10" => { let $s = &kit::Plus { a: sim_f::SimF, b: sim_h::SimH { prop: sim_h::PropH::C10 }, every: 8, name: "F:audit-stream+replica + H:whole-system(virtual time)" }; $body }
            "H:C10" => { let $s = &kit::Plus { a: sim_f::SimF, b: sim_h::SimH { prop: sim_h::PropH::C10 }, every: 1, name: "H:whole-system(virtual time)" }; $body }
            "C07" => { let $s = &kit::Plus { a: sim_c::SimC7, b: sim_h::SimH { prop: sim_h::PropH::C07 }, every: 20, name: "C:execution-manager(virtual time) + H:whole-system(virtual time)" }; $body }
            "H:C07" => { let $s = &kit::Plus { a: sim_c::SimC7, b: sim_h::SimH { prop: sim_h::PropH::C07 }, every: 1, name: "H:whole-system(virtual time)" }; $body }
            "C04" => { let $s = &sim_c::SimC4; $body }
            "C08" => { let $s = &sim_e::SimE; $body }
            "C12" => { let $s = &kit::Plus { a: sim_d1::SimD1, b: sim_h::SimH { prop: sim_h::PropH::C12 }, every: 100, name: "D1:reconnecting-streams+merge(virtual time) + H:whole-system(virtual time)" }; $body }
            "H:C12" => { let $s = &kit::Plus { a: sim_d1::SimD1, b: sim_h::SimH { prop: sim_h::PropH::C12 }, every: 1, name: "H:whole-system(virtual time)" }; $body }
            "C06" => { let $s = &sim_d2::SimD2; $body }
            "C20" => { let $s = &sim_g::SimG; $body }
            $other => $else,
        }
    };
}

fn dispatch_run(prop: &str, opts: &Opts) -> i32 {
    with_sim!(prop, s => kit::run_batch(s, opts).exit_code, other => {
        eprintln!("HARNESS-ERROR: no simulator registered for property {other}");
        2
    })
}

fn dispatch_plan(prop: &str, seed: u64, i: u64) -> i32 {
    with_sim!(prop, s => { kit::print_plan(s, seed, i); 0 }, _other => 2)
}

fn dispatch_fresh(file: &serde_json::Value, verif_dir: &str) -> i32 {
    let prop = file["property"].as_str().unwrap_or("");
    with_sim!(prop, s => kit::fresh_child(s, file, verif_dir), _other => 2)
}

fn dispatch_replay(file: &serde_json::Value, verif_dir: &str) -> i32 {
    let prop = file["property"].as_str().unwrap_or("");
    with_sim!(prop, s => kit::replay(s, file, verif_dir), other => {
        eprintln!("HARNESS-ERROR: no simulator registered for property {other}");
        2
    })
}

fn main() {
    let args: Vec<String> = std::env::args().collect();
    kit::silence_panics();
    let verif_dir = arg_val(&args, "--verif-dir").unwrap_or_else(|| "/verif".to_string());
    let code = match args.get(1).map(String::as_str) {
        Some("run") => {
            let Some(prop) = args.get(2) else {
                eprintln!("usage: simcheck run <PROPERTY> ...");
                std::process::exit(2);
            };
            let tier = arg_val(&args, "--tier")
                .or_else(|| std::env::var("VERIF_TIER").ok())
                .unwrap_or_else(|| "quick".into());
            let seed = arg_val(&args, "--seed")
                .or_else(|| std::env::var("VERIF_SEED").ok())
                .and_then(|s| s.trim().parse::<u64>().ok())
                .unwrap_or(kit::DEFAULT_SEED);
            let runs = arg_val(&args, "--runs")
                .or_else(|| std::env::var("VERIF_RUNS").ok())
                .and_then(|s| s.parse::<u64>().ok());
            let workers = arg_val(&args, "--workers")
                .or_else(|| std::env::var("VERIF_WORKERS").ok())
                .and_then(|s| s.parse::<usize>().ok())
                .unwrap_or_else(|| {
                    std::thread::available_parallelism()
                        .map(|n| n.get())
                        .unwrap_or(4)
                        .min(16)
                });
            let max_wall_s = arg_val(&args, "--max-wall-s")
                .and_then(|s| s.parse::<f64>().ok())
                .unwrap_or(if tier == "thorough" { 1500.0 } else { 240.0 });
            let opts = Opts {
                tier,
                seed,
                runs,
                workers,
                max_wall_s,
                verif_dir,
                shrink_budget: 3000,
                // `H:<ID>` (whole-system part alone) is a development aid: it never rewrites the evidence
                write_evidence: !args.iter().any(|a| a == "--no-evidence") && !prop.starts_with("H:"),
            };
            dispatch_run(prop, &opts)
        }
        Some("plan") => {
            let prop = args.get(2).cloned().unwrap_or_default();
            let seed = arg_val(&args, "--seed").and_then(|s| s.parse().ok()).unwrap_or(kit::DEFAULT_SEED);
            let i = arg_val(&args, "--index").and_then(|s| s.parse().ok()).unwrap_or(0);
            dispatch_plan(&prop, seed, i)
        }
        Some("fresh") => {
            // internal: execute one scenario in this (fresh) process and print its outcome as JSON
            let Some(path) = args.get(2) else { std::process::exit(2) };
            match std::fs::read_to_string(path).map_err(|e| e.to_string()).and_then(|t| serde_json::from_str::<serde_json::Value>(&t).map_err(|e| e.to_string())) {
                Ok(v) => dispatch_fresh(&v, &verif_dir),
                Err(_) => 2,
            }
        }
        Some("replay") => {
            let Some(path) = args.get(2) else {
                eprintln!("usage: simcheck replay <FILE>");
                std::process::exit(2);
            };
            match std::fs::read_to_string(path)
                .map_err(|e| e.to_string())
                .and_then(|t| serde_json::from_str::<serde_json::Value>(&t).map_err(|e| e.to_string()))
            {
                Ok(v) => dispatch_replay(&v, &verif_dir),
                Err(e) => {
                    eprintln!("HARNESS-ERROR: cannot read replay file {path}: {e}");
                    2
                }
            }
        }
        _ => {
            eprintln!("usage: simcheck run <PROPERTY> [...] | simcheck replay <FILE>");
            2
        }
    };
    std::process::exit(code);
}
