//! simcheck — deterministic simulation with fault injection for barter-rs.
//!
//! usage: simcheck run <PROPERTY> [--tier quick|thorough] [--seed N] [--runs N] [--workers N]
//!                                [--verif-dir DIR] [--max-wall-s S] [--no-evidence]
//!        simcheck replay <FILE> [--verif-dir DIR]
//! exit:  0 property held on everything explored, 1 violation (VIOLATION line printed),
//!        2 harness error (never a verdict).

mod engine_world;
mod kit;
mod sim_a;
mod sim_b;
mod sim_c;
mod sim_client;
mod sim_d1;
mod sim_d2;
mod sim_e;
mod sim_f;
mod sim_g;
mod world;

use kit::{Opts, Sim};

fn arg_val(args: &[String], name: &str) -> Option<String> {
    args.iter()
        .position(|a| a == name)
        .and_then(|i| args.get(i + 1).cloned())
}

fn dispatch_run(prop: &str, opts: &Opts) -> i32 {
    match prop {
        "C01" => kit::run_batch(&sim_a::SimA { prop: sim_a::PropA::C01 }, opts).exit_code,
        "C09" => kit::run_batch(&sim_a::SimA { prop: sim_a::PropA::C09 }, opts).exit_code,
        "C03" => kit::run_batch(&sim_b::SimB { prop: sim_b::PropB::C03 }, opts).exit_code,
        "C14" => kit::run_batch(&sim_b::SimB { prop: sim_b::PropB::C14 }, opts).exit_code,
        "C15" => kit::run_batch(&sim_b::SimB { prop: sim_b::PropB::C15 }, opts).exit_code,
        "C19" => kit::run_batch(&sim_b::SimB { prop: sim_b::PropB::C19 }, opts).exit_code,
        "C10" => kit::run_batch(&sim_f::SimF, opts).exit_code,
        "C07" => kit::run_batch(&sim_c::SimC7, opts).exit_code,
        "C04" => kit::run_batch(&sim_c::SimC4, opts).exit_code,
        "C08" => kit::run_batch(&sim_e::SimE, opts).exit_code,
        "C12" => kit::run_batch(&sim_d1::SimD1, opts).exit_code,
        "C06" => kit::run_batch(&sim_d2::SimD2, opts).exit_code,
        "C20" => kit::run_batch(&sim_g::SimG, opts).exit_code,
        other => {
            eprintln!("HARNESS-ERROR: no simulator registered for property {other}");
            2
        }
    }
}

fn dispatch_plan(prop: &str, seed: u64, i: u64) -> i32 {
    match prop {
        "C01" => kit::print_plan(&sim_a::SimA { prop: sim_a::PropA::C01 }, seed, i),
        "C09" => kit::print_plan(&sim_a::SimA { prop: sim_a::PropA::C09 }, seed, i),
        "C03" => kit::print_plan(&sim_b::SimB { prop: sim_b::PropB::C03 }, seed, i),
        "C14" => kit::print_plan(&sim_b::SimB { prop: sim_b::PropB::C14 }, seed, i),
        "C15" => kit::print_plan(&sim_b::SimB { prop: sim_b::PropB::C15 }, seed, i),
        "C19" => kit::print_plan(&sim_b::SimB { prop: sim_b::PropB::C19 }, seed, i),
        "C10" => kit::print_plan(&sim_f::SimF, seed, i),
        "C07" => kit::print_plan(&sim_c::SimC7, seed, i),
        "C04" => kit::print_plan(&sim_c::SimC4, seed, i),
        "C08" => kit::print_plan(&sim_e::SimE, seed, i),
        "C12" => kit::print_plan(&sim_d1::SimD1, seed, i),
        "C06" => kit::print_plan(&sim_d2::SimD2, seed, i),
        "C20" => kit::print_plan(&sim_g::SimG, seed, i),
        _ => return 2,
    }
    0
}

fn dispatch_replay(file: &serde_json::Value, verif_dir: &str) -> i32 {
    let prop = file["property"].as_str().unwrap_or("");
    match prop {
        "C01" => kit::replay(&sim_a::SimA { prop: sim_a::PropA::C01 }, file, verif_dir),
        "C09" => kit::replay(&sim_a::SimA { prop: sim_a::PropA::C09 }, file, verif_dir),
        "C03" => kit::replay(&sim_b::SimB { prop: sim_b::PropB::C03 }, file, verif_dir),
        "C14" => kit::replay(&sim_b::SimB { prop: sim_b::PropB::C14 }, file, verif_dir),
        "C15" => kit::replay(&sim_b::SimB { prop: sim_b::PropB::C15 }, file, verif_dir),
        "C19" => kit::replay(&sim_b::SimB { prop: sim_b::PropB::C19 }, file, verif_dir),
        "C10" => kit::replay(&sim_f::SimF, file, verif_dir),
        "C07" => kit::replay(&sim_c::SimC7, file, verif_dir),
        "C04" => kit::replay(&sim_c::SimC4, file, verif_dir),
        "C08" => kit::replay(&sim_e::SimE, file, verif_dir),
        "C12" => kit::replay(&sim_d1::SimD1, file, verif_dir),
        "C06" => kit::replay(&sim_d2::SimD2, file, verif_dir),
        "C20" => kit::replay(&sim_g::SimG, file, verif_dir),
        other => {
            eprintln!("HARNESS-ERROR: no simulator registered for property {other}");
            2
        }
    }
}

fn main() {
    let args: Vec<String> = std::env::args().collect();
    kit::silence_panics();
    let verif_dir = arg_val(&args, "--verif-dir").unwrap_or_else(|| "/verif".to_string());
    let code = match args.get(1).map(String::as_str) {
        Some("run") => {
            let Some(prop) = args.get(2) else {
                eprintln!("usage: simcheck run <PROPERTY> ...");
                std::process::exit(2);
            };
            let tier = arg_val(&args, "--tier")
                .or_else(|| std::env::var("VERIF_TIER").ok())
                .unwrap_or_else(|| "quick".into());
            let seed = arg_val(&args, "--seed")
                .or_else(|| std::env::var("VERIF_SEED").ok())
                .and_then(|s| s.trim().parse::<u64>().ok())
                .unwrap_or(kit::DEFAULT_SEED);
            let runs = arg_val(&args, "--runs")
                .or_else(|| std::env::var("VERIF_RUNS").ok())
                .and_then(|s| s.parse::<u64>().ok());
            let workers = arg_val(&args, "--workers")
                .or_else(|| std::env::var("VERIF_WORKERS").ok())
                .and_then(|s| s.parse::<usize>().ok())
                .unwrap_or_else(|| {
                    std::thread::available_parallelism()
                        .map(|n| n.get())
                        .unwrap_or(4)
                        .min(16)
                });
            let max_wall_s = arg_val(&args, "--max-wall-s")
                .and_then(|s| s.parse::<f64>().ok())
                .unwrap_or(if tier == "thorough" { 1500.0 } else { 240.0 });
            let opts = Opts {
                tier,
                seed,
                runs,
                workers,
                max_wall_s,
                verif_dir,
                shrink_budget: 3000,
                write_evidence: !args.iter().any(|a| a == "--no-evidence"),
            };
            dispatch_run(prop, &opts)
        }
        Some("plan") => {
            let prop = args.get(2).cloned().unwrap_or_default();
            let seed = arg_val(&args, "--seed").and_then(|s| s.parse().ok()).unwrap_or(kit::DEFAULT_SEED);
            let i = arg_val(&args, "--index").and_then(|s| s.parse().ok()).unwrap_or(0);
            dispatch_plan(&prop, seed, i)
        }
        Some("replay") => {
            let Some(path) = args.get(2) else {
                eprintln!("usage: simcheck replay <FILE>");
                std::process::exit(2);
            };
            match std::fs::read_to_string(path)
                .map_err(|e| e.to_string())
                .and_then(|t| serde_json::from_str::<serde_json::Value>(&t).map_err(|e| e.to_string()))
            {
                Ok(v) => dispatch_replay(&v, &verif_dir),
                Err(e) => {
                    eprintln!("HARNESS-ERROR: cannot read replay file {path}: {e}");
                    2
                }
            }
        }
        _ => {
            eprintln!("usage: simcheck run <PROPERTY> [...] | simcheck replay <FILE>");
            2
        }
    };
    std::process::exit(code);
}
