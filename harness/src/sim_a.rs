//! Sim A — exchange-report delivery simulator (C01 order lifecycle, C09 no rollback).
//!
//! Real code: `EngineState` built by `EngineStateBuilder` from real `IndexedInstruments`,
//! `EngineState::update_from_account` / `update_from_market`, the `InFlightRequestRecorder` impl on
//! `EngineState`, `Orders` (order manager), `AssetState`, `DefaultInstrumentMarketData`.
//! Stub: the exchange (ground-truth order scripts) and the network between exchange and engine
//! (delay / reorder / duplicate / drop / stale full snapshot), both owned by the PRNG.

use crate::{
    kit::{ExecCtx, Log, Outcome, RunStats, Sim, Violation, report, rng::Rng},
    world::*,
};
use barter::engine::state::{
    order::in_flight_recorder::InFlightRequestRecorder, trading::TradingState,
};
use barter_execution::{
    AccountEvent, AccountEventKind,
    balance::{AssetBalance, Balance},
    error::{ApiError, ConnectivityError, OrderError},
    order::{
        id::{ClientOrderId, OrderId},
        request::OrderResponseCancel,
        state::{
            ActiveOrderState, CancelInFlight, Cancelled, InactiveOrderState, Open, OpenInFlight,
            OrderState,
        },
    },
};
use barter_instrument::{
    asset::AssetIndex, exchange::ExchangeIndex, index::IndexedInstruments,
    instrument::InstrumentIndex,
};
use rust_decimal::{Decimal, prelude::ToPrimitive};
use serde::{Deserialize, Serialize};

#[derive(Clone, Copy, PartialEq, Eq, Debug)]
pub enum PropA {
    C01,
    C09,
}

pub struct SimA {
    pub prop: PropA,
}

#[derive(Clone, Debug, Serialize, Deserialize, PartialEq)]
pub struct OD {
    pub id: u8,
    pub t: i64,
    pub filled: i64,
}

#[derive(Clone, Debug, Serialize, Deserialize, PartialEq)]
pub enum SnapSt {
    InFlightOpen,
    Open(OD),
    InFlightCancel(Option<OD>),
    FullyFilled,
    Cancelled { t: i64 },
    Expired,
    Failed,
}

#[derive(Clone, Debug, Serialize, Deserialize, PartialEq)]
pub enum FullItem {
    Bal { asset: usize, t: i64, total: i64 },
    Ord { ord: usize, st: SnapSt },
}

#[derive(Clone, Debug, Serialize, Deserialize, PartialEq)]
pub enum OpA {
    OpenSent { ord: usize },
    CancelSent { ord: usize },
    Snap { ord: usize, st: SnapSt },
    /// a failed cancel (ok == false) carries error kind `t % 3`: connectivity / rate limit / rejected
    CancelResp { ord: usize, ok: bool, t: i64 },
    Bal { asset: usize, t: i64, total: i64 },
    Trade { inst: usize, t: i64, price: i64 },
    L1 { inst: usize, t: i64, bid: i64, ask: i64 },
    Full { items: Vec<FullItem> },
    /// a fill reported on the account stream that names the exchange order id of order `ord`
    /// (exchanges report the order update and the trade separately): not an order report
    AcctFill { ord: usize, t: i64, qty: i64 },
    /// restart from persisted state: instrument and asset states are written as JSON and read back
    /// (only durable state survives; it must be the state)
    Restore,
    /// a liquidation print on the market stream: not a trade, not a top of book
    Liq { inst: usize, t: i64, price: i64 },
}

#[derive(Clone, Debug, Serialize, Deserialize)]
pub struct OrdDef {
    pub inst: usize,
    pub qty: i64,
    pub buy: bool,
    /// time in force carried by the exchange's reports: 0 GTC, 1 good-until-end-of-day, 2 IOC, 3 FOK
    #[serde(default)]
    pub tif: u8,
}

fn tif_of(code: u8) -> barter_execution::order::TimeInForce {
    use barter_execution::order::TimeInForce as T;
    match code % 4 {
        0 => T::GoodUntilCancelled { post_only: false },
        1 => T::GoodUntilEndOfDay,
        2 => T::ImmediateOrCancel,
        _ => T::FillOrKill,
    }
}

#[derive(Clone, Debug, Serialize, Deserialize)]
pub struct ScenarioA {
    pub topo: u8,
    pub orders: Vec<OrdDef>,
    pub init_bal: Vec<Option<i64>>,
    /// op + planner's fault annotation (counted when the op is actually executed)
    pub ops: Vec<(OpA, Option<String>)>,
    /// messages the simulated network dropped (never delivered)
    #[serde(default)]
    pub n_dropped: u64,
    /// microseconds per time unit of every `t` in this scenario (None = 1000: milliseconds);
    /// smaller units put several distinct exchange timestamps inside one millisecond
    #[serde(default)]
    pub tick_us: Option<i64>,
    /// decimal places of every order quantity: quantity = qty x 10^-scale (0 = whole units; 9 puts
    /// what is left to fill below 1e-8)
    #[serde(default)]
    pub qty_scale: u32,
    /// k > 0: every exchange report whose salt is a multiple of k carries `StrategyId::unknown()`
    /// instead of the strategy that opened the order (orders are keyed by client order id alone)
    #[serde(default)]
    pub alt_strategy: u8,
}

thread_local! {
    static QTY_SCALE: std::cell::Cell<u32> = const { std::cell::Cell::new(0) };
    static ALT_STRATEGY: std::cell::Cell<u8> = const { std::cell::Cell::new(0) };
}

struct KnobGuard;
impl Drop for KnobGuard {
    fn drop(&mut self) {
        QTY_SCALE.with(|c| c.set(0));
        ALT_STRATEGY.with(|c| c.set(0));
    }
}
fn set_knobs(qty_scale: u32, alt_strategy: u8) -> KnobGuard {
    QTY_SCALE.with(|c| c.set(qty_scale.min(12)));
    ALT_STRATEGY.with(|c| c.set(alt_strategy));
    KnobGuard
}

/// order quantity in the scenario's quantity unit
fn qdec(n: i64) -> Decimal {
    Decimal::new(n, QTY_SCALE.with(|c| c.get()))
}

/// key of an exchange report: now and then labelled with the unknown strategy
fn rkey(ex: usize, inst: usize, cid: &str, salt: i64) -> barter_execution::order::OrderKey {
    let mut k = okey(ex, inst, cid);
    let m = ALT_STRATEGY.with(|c| c.get()) as i64;
    if m > 0 && salt.rem_euclid(m) == 0 {
        k.strategy = barter_execution::order::id::StrategyId::unknown();
    }
    k
}

fn salt_of(ord: usize, st: &SnapSt) -> i64 {
    ord as i64
        + match st {
            SnapSt::Open(o) => o.t + o.filled,
            SnapSt::InFlightCancel(Some(o)) => o.t + 1,
            SnapSt::Cancelled { t } => *t + 2,
            SnapSt::FullyFilled => 3,
            SnapSt::Expired => 4,
            SnapSt::Failed => 5,
            _ => 6,
        }
}

pub fn topo_instruments(topo: u8) -> IndexedInstruments {
    match topo {
        0 => IndexedInstruments::new(vec![spot(EXS[0], "btc", "usdt")]),
        1 => IndexedInstruments::new(vec![
            spot(EXS[0], "btc", "usdt"),
            spot(EXS[0], "eth", "usdt"),
        ]),
        _ => IndexedInstruments::new(vec![
            spot(EXS[0], "btc", "usdt"),
            spot(EXS[0], "eth", "usdt"),
            spot(EXS[2], "btc", "usdt"),
        ]),
    }
}

// ---------------------------------------------------------------------------------------------
// Reference model (written from the property statement)
// ---------------------------------------------------------------------------------------------

#[derive(Clone, Debug, PartialEq)]
pub enum M {
    Untracked,
    InFlightOpen,
    Open(OD),
    InFlightCancel(Option<OD>),
}

impl M {
    pub fn tracked(&self) -> bool {
        !matches!(self, M::Untracked)
    }
    pub fn data(&self) -> Option<&OD> {
        match self {
            M::Open(o) => Some(o),
            M::InFlightCancel(o) => o.as_ref(),
            _ => None,
        }
    }
}

pub enum Exp {
    OneOf(Vec<M>),
    /// before tracked => after tracked; otherwise anything (statement silent)
    KeepTracked,
    /// must be tracked afterwards, state unconstrained
    Tracked,
}

fn newer(cur: &OD, upd: &OD) -> Vec<OD> {
    if upd.t > cur.t {
        vec![upd.clone()]
    } else if upd.t < cur.t {
        vec![cur.clone()]
    } else {
        vec![cur.clone(), upd.clone()]
    }
}

fn expect_report(m: &M, st: &SnapSt, qty: i64) -> Exp {
    match st {
        SnapSt::FullyFilled | SnapSt::Cancelled { .. } | SnapSt::Expired | SnapSt::Failed => {
            Exp::OneOf(vec![M::Untracked])
        }
        SnapSt::Open(o) if o.filled == qty => Exp::OneOf(vec![M::Untracked]),
        SnapSt::Open(o) => match m {
            M::Untracked | M::InFlightOpen => Exp::OneOf(vec![M::Open(o.clone())]),
            M::Open(cur) => Exp::OneOf(newer(cur, o).into_iter().map(M::Open).collect()),
            M::InFlightCancel(None) => Exp::OneOf(vec![M::InFlightCancel(Some(o.clone()))]),
            M::InFlightCancel(Some(cur)) => Exp::OneOf(
                newer(cur, o)
                    .into_iter()
                    .map(|x| M::InFlightCancel(Some(x)))
                    .collect(),
            ),
        },
        SnapSt::InFlightOpen | SnapSt::InFlightCancel(_) => Exp::KeepTracked,
    }
}

pub fn expect_op(m: &M, op: &OpA, qty: i64) -> Exp {
    match op {
        OpA::OpenSent { .. } => match m {
            M::Untracked => Exp::OneOf(vec![M::InFlightOpen]),
            _ => Exp::Tracked,
        },
        OpA::CancelSent { .. } => match m {
            M::Untracked => Exp::OneOf(vec![M::Untracked]),
            M::InFlightOpen => Exp::OneOf(vec![M::InFlightCancel(None)]),
            M::Open(o) => Exp::OneOf(vec![M::InFlightCancel(Some(o.clone()))]),
            M::InFlightCancel(x) => Exp::OneOf(vec![M::InFlightCancel(x.clone())]),
        },
        OpA::Snap { st, .. } => expect_report(m, st, qty),
        OpA::CancelResp { ok: true, .. } => Exp::OneOf(vec![M::Untracked]),
        OpA::CancelResp { ok: false, .. } => match m {
            M::InFlightCancel(Some(o)) => Exp::OneOf(vec![M::Open(o.clone())]),
            M::InFlightCancel(None) => Exp::OneOf(vec![M::Untracked, M::InFlightOpen]),
            other => Exp::OneOf(vec![other.clone()]),
        },
        _ => Exp::OneOf(vec![m.clone()]),
    }
}

// ---------------------------------------------------------------------------------------------
// Engine-side helpers
// ---------------------------------------------------------------------------------------------

fn cid(ord: usize) -> String {
    format!("c{ord}")
}

fn oid(ord: usize, id: u8) -> String {
    format!("x{ord}_{id}")
}

fn open_of(ord: usize, o: &OD) -> Open {
    Open {
        id: OrderId::new(oid(ord, o.id)),
        time_exchange: ts(o.t),
        filled_quantity: qdec(o.filled),
    }
}

fn od_of(ord: usize, o: &Open) -> OD {
    let id = (0u8..4)
        .find(|k| o.id == OrderId::new(oid(ord, *k)))
        .unwrap_or(255);
    OD {
        id,
        t: ms_of(o.time_exchange),
        filled: (o.filled_quantity * Decimal::from(10i64.pow(QTY_SCALE.with(|c| c.get())))).to_i64().unwrap_or(-1),
    }
}

fn view(state: &St, inst: usize, ord: usize) -> M {
    match state
        .instruments
        .instrument_index(&InstrumentIndex(inst))
        .orders
        .0
        .get(&ClientOrderId::new(cid(ord)))
    {
        None => M::Untracked,
        Some(o) => match &o.state {
            ActiveOrderState::OpenInFlight(_) => M::InFlightOpen,
            ActiveOrderState::Open(open) => M::Open(od_of(ord, open)),
            ActiveOrderState::CancelInFlight(c) => {
                M::InFlightCancel(c.order.as_ref().map(|o| od_of(ord, o)))
            }
        },
    }
}

fn order_state(ord: usize, st: &SnapSt) -> OrderState {
    match st {
        SnapSt::InFlightOpen => OrderState::active(OpenInFlight),
        SnapSt::Open(o) => OrderState::active(open_of(ord, o)),
        SnapSt::InFlightCancel(o) => OrderState::active(CancelInFlight {
            order: o.as_ref().map(|o| open_of(ord, o)),
        }),
        SnapSt::FullyFilled => OrderState::fully_filled(),
        SnapSt::Cancelled { t } => OrderState::inactive(Cancelled {
            id: OrderId::new(oid(ord, 0)),
            time_exchange: ts(*t),
        }),
        SnapSt::Expired => OrderState::expired(),
        SnapSt::Failed => OrderState::Inactive(InactiveOrderState::OpenFailed(
            OrderError::Rejected(ApiError::OrderRejected("sim".into())),
        )),
    }
}

struct World {
    instruments: IndexedInstruments,
    inst_ex: Vec<usize>,
    asset_ex: Vec<usize>,
}

impl World {
    fn new(topo: u8) -> Self {
        let instruments = topo_instruments(topo);
        let inst_ex = instruments
            .instruments()
            .iter()
            .map(|i| i.value.exchange.key.0)
            .collect();
        let asset_ex = instruments
            .assets()
            .iter()
            .map(|a| {
                instruments
                    .find_exchange_index(a.value.exchange)
                    .unwrap()
                    .0
            })
            .collect();
        Self {
            instruments,
            inst_ex,
            asset_ex,
        }
    }
    fn n_inst(&self) -> usize {
        self.inst_ex.len()
    }
    fn n_assets(&self) -> usize {
        self.asset_ex.len()
    }
}

const PRICE: i64 = 100;

fn snap_event(w: &World, sc: &ScenarioA, ord: usize, st: &SnapSt) -> AccountEvent {
    let def = &sc.orders[ord];
    let ex = w.inst_ex[def.inst];
    let mut o = order_snapshot(rkey(ex, def.inst, &cid(ord), salt_of(ord, st)), def.buy, dec(PRICE), qdec(def.qty), order_state(ord, st));
    o.time_in_force = tif_of(def.tif);
    ev_order_snapshot(ex, o)
}

fn full_event(w: &World, sc: &ScenarioA, items: &[FullItem]) -> AccountEvent {
    let mut ex = 0;
    let mut balances = Vec::new();
    let mut orders = Vec::new();
    for (k, it) in items.iter().enumerate() {
        match it {
            FullItem::Bal { asset, t, total } => {
                if k == 0 {
                    ex = w.asset_ex[*asset];
                }
                balances.push(AssetBalance {
                    asset: AssetIndex(*asset),
                    balance: Balance::new(dec(*total), dec(*total)),
                    time_exchange: ts(*t),
                });
            }
            FullItem::Ord { ord, st } => {
                let def = &sc.orders[*ord];
                let oex = w.inst_ex[def.inst];
                if k == 0 {
                    ex = oex;
                }
                let mut o = order_snapshot(rkey(oex, def.inst, &cid(*ord), salt_of(*ord, st)), def.buy, dec(PRICE), qdec(def.qty), order_state(*ord, st));
                o.time_in_force = tif_of(def.tif);
                orders.push((def.inst, o));
            }
        }
    }
    ev_full_snapshot(ex, balances, orders)
}

/// Everything an op may legitimately touch; the rest of the engine state must be byte-identical.
#[derive(Default)]
struct Touched {
    orders: Vec<(usize, usize)>,
    assets: Vec<usize>,
    data: Vec<usize>,
    /// instruments whose position / statistics a fill may change
    positions: Vec<usize>,
}

fn touched(sc: &ScenarioA, op: &OpA) -> Touched {
    let mut t = Touched::default();
    match op {
        OpA::OpenSent { ord }
        | OpA::CancelSent { ord }
        | OpA::Snap { ord, .. }
        | OpA::CancelResp { ord, .. } => t.orders.push((sc.orders[*ord].inst, *ord)),
        OpA::Bal { asset, .. } => t.assets.push(*asset),
        OpA::Trade { inst, .. } | OpA::L1 { inst, .. } => {
            t.data.push(*inst);
            // (a priced market event re-marks an open position of that instrument)
            t.positions.push(*inst);
        }
        // a fill changes the instrument's position, nothing about any order; a liquidation print
        // changes nothing at all
        OpA::AcctFill { ord, .. } => t.positions.push(sc.orders[*ord].inst),
        // (any market event of an instrument re-marks its open position at the current price)
        OpA::Liq { inst, .. } => t.positions.push(*inst),
        OpA::Restore => {}
        OpA::Full { items } => {
            for it in items {
                match it {
                    FullItem::Bal { asset, .. } => t.assets.push(*asset),
                    FullItem::Ord { ord, .. } => t.orders.push((sc.orders[*ord].inst, *ord)),
                }
            }
        }
    }
    t
}

fn mask(s: &mut St, t: &Touched) {
    s.connectivity = Default::default();
    s.global = Default::default();
    for (inst, ord) in &t.orders {
        s.instruments
            .instrument_index_mut(&InstrumentIndex(*inst))
            .orders
            .0
            .remove(&ClientOrderId::new(cid(*ord)));
    }
    for a in &t.assets {
        let st = s.assets.asset_index_mut(&AssetIndex(*a));
        st.balance = None;
        st.statistics = Default::default();
    }
    for i in &t.data {
        s.instruments.instrument_index_mut(&InstrumentIndex(*i)).data = Default::default();
    }
    for i in &t.positions {
        let ist = s.instruments.instrument_index_mut(&InstrumentIndex(*i));
        ist.position = Default::default();
        ist.tear_sheet = barter::statistic::summary::instrument::TearSheetGenerator::init(ts(0));
    }
}

fn apply(state: &mut St, w: &World, sc: &ScenarioA, op: &OpA) {
    match op {
        OpA::OpenSent { ord } => {
            let def = &sc.orders[*ord];
            let ex = w.inst_ex[def.inst];
            let req = request_open(
                okey(ex, def.inst, &cid(*ord)),
                def.buy,
                dec(PRICE),
                qdec(def.qty),
                barter_execution::order::OrderKind::Limit,
            );
            state.record_in_flight_open(&req);
        }
        OpA::CancelSent { ord } => {
            let def = &sc.orders[*ord];
            let ex = w.inst_ex[def.inst];
            let req = request_cancel(okey(ex, def.inst, &cid(*ord)), None);
            state.record_in_flight_cancel(&req);
        }
        OpA::Snap { ord, st } => {
            let ev = snap_event(w, sc, *ord, st);
            state.update_from_account(&ev);
        }
        OpA::CancelResp { ord, ok, t } => {
            let def = &sc.orders[*ord];
            let ex = w.inst_ex[def.inst];
            let ev = AccountEvent {
                exchange: ExchangeIndex(ex),
                kind: AccountEventKind::OrderCancelled(OrderResponseCancel {
                    key: rkey(ex, def.inst, &cid(*ord), *ord as i64 + *t),
                    state: if *ok {
                        Ok(Cancelled {
                            id: OrderId::new(oid(*ord, 0)),
                            time_exchange: ts(*t),
                        })
                    } else {
                        match t.rem_euclid(3) {
                            0 => Err(OrderError::Connectivity(ConnectivityError::Timeout)),
                            1 => Err(OrderError::Rejected(ApiError::RateLimit)),
                            _ => Err(OrderError::Rejected(ApiError::OrderRejected("sim".into()))),
                        }
                    },
                }),
            };
            state.update_from_account(&ev);
        }
        OpA::Bal { asset, t, total } => {
            let ev = ev_balance(w.asset_ex[*asset], *asset, dec(*total), *t);
            state.update_from_account(&ev);
        }
        OpA::Trade { inst, t, price } => {
            let ex = w.instruments.instruments()[*inst].value.exchange.value;
            let ev = mk_public_trade(ex, *inst, *t, *price as f64, "p");
            state.update_from_market(&ev);
        }
        OpA::L1 { inst, t, bid, ask } => {
            let ex = w.instruments.instruments()[*inst].value.exchange.value;
            let ev = mk_l1(
                ex,
                *inst,
                *t,
                // a non-positive scripted price means that side of the book is empty
                (*bid > 0).then(|| (dec(*bid), dec(1))),
                (*ask > 0).then(|| (dec(*ask), dec(2))),
            );
            state.update_from_market(&ev);
        }
        OpA::Full { items } => {
            let ev = full_event(w, sc, items);
            state.update_from_account(&ev);
        }
        OpA::AcctFill { ord, t, qty } => {
            let def = &sc.orders[*ord];
            let ex = w.inst_ex[def.inst];
            // names the exchange order id the order's reports use most often
            let ev = ev_trade(ex, def.inst, &format!("f{ord}_{t}"), &oid(*ord, 0), def.buy, dec(PRICE), qdec(*qty), dec(0), *t);
            state.update_from_account(&ev);
        }
        OpA::Restore => {
            // (the whole EngineState has maps with structured keys and does not round-trip through
            // JSON; the instrument states do, and every asset state does on its own)
            if let Some(r) = serde_json::to_string(&state.instruments).ok().and_then(|t| serde_json::from_str(&t).ok()) {
                state.instruments = r;
            }
            for a in state.assets.0.values_mut() {
                if let Some(r) = serde_json::to_string(&*a).ok().and_then(|t| serde_json::from_str(&t).ok()) {
                    *a = r;
                }
            }
        }
        OpA::Liq { inst, t, price } => {
            let ex = w.instruments.instruments()[*inst].value.exchange.value;
            let ev = barter_data::event::MarketEvent {
                time_exchange: ts(*t),
                time_received: ts(*t + 3_600_000),
                exchange: ex,
                instrument: InstrumentIndex(*inst),
                kind: barter_data::event::DataKind::Liquidation(barter_data::subscription::liquidation::Liquidation {
                    side: barter_instrument::Side::Buy,
                    price: *price as f64,
                    quantity: 1.0,
                    time: ts(*t),
                }),
            };
            state.update_from_market(&ev);
        }
    }
}

fn op_tag(op: &OpA) -> String {
    fn st_tag(st: &SnapSt) -> &'static str {
        match st {
            SnapSt::InFlightOpen => "ifo",
            SnapSt::Open(_) => "open",
            SnapSt::InFlightCancel(_) => "ifc",
            SnapSt::FullyFilled => "ff",
            SnapSt::Cancelled { .. } => "canc",
            SnapSt::Expired => "exp",
            SnapSt::Failed => "fail",
        }
    }
    match op {
        OpA::OpenSent { ord } => format!("os{ord}"),
        OpA::CancelSent { ord } => format!("cs{ord}"),
        OpA::Snap { ord, st } => format!("sn{ord}:{}", st_tag(st)),
        OpA::CancelResp { ord, ok, .. } => format!("cr{ord}:{ok}"),
        OpA::Bal { asset, .. } => format!("b{asset}"),
        OpA::Trade { inst, .. } => format!("t{inst}"),
        OpA::L1 { inst, .. } => format!("l{inst}"),
        OpA::AcctFill { ord, .. } => format!("af{ord}"),
        OpA::Liq { inst, .. } => format!("q{inst}"),
        OpA::Restore => "restore".to_string(),
        OpA::Full { items } => {
            let mut s = String::from("full[");
            for it in items {
                match it {
                    FullItem::Bal { asset, .. } => s.push_str(&format!("b{asset},")),
                    FullItem::Ord { ord, st } => s.push_str(&format!("o{ord}:{},", st_tag(st))),
                }
            }
            s.push(']');
            s
        }
    }
}

// ---------------------------------------------------------------------------------------------
// Execution + oracles
// ---------------------------------------------------------------------------------------------

/// C09 bookkeeping: everything delivered so far, per item.
struct Delivered {
    bal: Vec<Vec<(i64, i64)>>,
    trade: Vec<Vec<(i64, i64)>>,
    l1: Vec<Vec<(i64, i64, i64)>>,
    open: Vec<Vec<OD>>,
    max_t: Vec<Option<i64>>,
}

impl SimA {
    fn pid(&self) -> &'static str {
        match self.prop {
            PropA::C01 => "C01",
            PropA::C09 => "C09",
        }
    }

    /// Sequence of single-order model steps an op decomposes into.
    fn order_steps(op: &OpA) -> Vec<(usize, OpA)> {
        match op {
            OpA::OpenSent { ord }
            | OpA::CancelSent { ord }
            | OpA::Snap { ord, .. }
            | OpA::CancelResp { ord, .. } => vec![(*ord, op.clone())],
            OpA::Full { items } => items
                .iter()
                .filter_map(|it| match it {
                    FullItem::Ord { ord, st } => Some((
                        *ord,
                        OpA::Snap {
                            ord: *ord,
                            st: st.clone(),
                        },
                    )),
                    _ => None,
                })
                .collect(),
            _ => vec![],
        }
    }
}

impl Sim for SimA {
    type Scenario = ScenarioA;

    fn name(&self) -> &'static str {
        "A:exchange-report-delivery"
    }
    fn property(&self) -> &'static str {
        self.pid()
    }
    fn sub_batches(&self) -> Vec<&'static str> {
        vec![
            "consistent_exchange_in_order_network(fault-free)",
            "consistent_exchange_faulty_network",
            "adversarial_reports(filled is a function of exchange time)",
            "adversarial_reports_unconstrained(any filled quantity at any timestamp)",
        ]
    }
    fn default_runs(&self) -> (u64, u64) {
        (1_500_000, 20_000_000)
    }

    fn plan(&self, rng: &mut Rng, sub: usize) -> ScenarioA {
        plan_a(self.prop, rng, sub)
    }

    fn execute(&self, sc: &ScenarioA, ctx: &ExecCtx<'_>) -> Outcome {
        let pid = self.pid();
        let _tick = set_tick_us(sc.tick_us.unwrap_or(1000));
        let _knobs = set_knobs(sc.qty_scale, sc.alt_strategy);
        let w = World::new(sc.topo);
        let mut log = Log::new(ctx.keep_log);
        let mut stats = RunStats::default();
        let balances: Vec<(barter_instrument::exchange::ExchangeId, String, i64)> = sc
            .init_bal
            .iter()
            .enumerate()
            .filter_map(|(a, b)| {
                let b = (*b)?;
                let ea = w.instruments.assets().get(a)?;
                Some((
                    ea.value.exchange,
                    ea.value.asset.name_internal.name().to_string(),
                    b,
                ))
            })
            .collect();
        let bal_refs: Vec<(barter_instrument::exchange::ExchangeId, &str, i64)> = balances
            .iter()
            .map(|(e, s, b)| (*e, s.as_str(), *b))
            .collect();
        let mut state = build_state(&w.instruments, TradingState::Disabled, &bal_refs);

        let n_ord = sc.orders.len();
        let mut model: Vec<M> = vec![M::Untracked; n_ord];
        let mut ever_tracked = vec![false; n_ord];
        let mut data_dropped_by_cancel = vec![false; n_ord];
        let mut last_ord: Option<usize> = None;
        let mut del = Delivered {
            bal: vec![Vec::new(); w.n_assets()],
            trade: vec![Vec::new(); w.n_inst()],
            l1: vec![Vec::new(); w.n_inst()],
            open: vec![Vec::new(); n_ord],
            max_t: vec![None; n_ord],
        };
        for (a, b) in sc.init_bal.iter().enumerate() {
            if let (Some(b), true) = (b, a < w.n_assets()) {
                del.bal[a].push((0, *b));
            }
        }
        let mut violation: Option<Violation> = None;
        let mut max_time = 0i64;
        if sc.n_dropped > 0 {
            *stats.faults.entry("drop").or_default() += sc.n_dropped;
        }

        'run: for (step, (op, fault)) in sc.ops.iter().enumerate() {
            // skip ops that reference entities outside the topology (possible after shrinking)
            let t = touched(sc, op);
            if t.orders.iter().any(|(i, _)| *i >= w.n_inst())
                || t.assets.iter().any(|a| *a >= w.n_assets())
                || t.data.iter().any(|i| *i >= w.n_inst())
            {
                continue;
            }
            stats.steps += 1;
            if let Some(f) = fault {
                match f.as_str() {
                    "dup" => stats.fault("duplicate"),
                    "stale_full" => stats.fault("stale_full_snapshot"),
                    "dup_request" => stats.fault("duplicate_request_record"),
                    "delayed" => stats.fault("delay"),
                    "state_persisted_and_restored" => stats.fault("state_persisted_and_restored"),
                    _ => {}
                }
            }
            log.sig(&op_tag(op));
            if let Some(f) = fault {
                log.sig(f);
            }
            let before = state.clone();
            let views_before: Vec<M> = (0..n_ord)
                .map(|o| view(&state, sc.orders[o].inst, o))
                .collect();

            apply(&mut state, &w, sc, op);
            log.line(|| format!("step {step}: {op:?}"));

            // ---- timestamps delivered (also drives the 'late' fault counter + probes) --------
            let order_steps = SimA::order_steps(op);
            for (ord, sop) in &order_steps {
                let ord = *ord;
                let t_msg: Option<i64> = match sop {
                    OpA::Snap { st, .. } => match st {
                        SnapSt::Open(o) => Some(o.t),
                        SnapSt::InFlightCancel(Some(o)) => Some(o.t),
                        SnapSt::Cancelled { t } => Some(*t),
                        _ => None,
                    },
                    OpA::CancelResp { ok: true, t, .. } => Some(*t),
                    _ => None,
                };
                if let Some(tm) = t_msg {
                    max_time = max_time.max(tm);
                    if del.max_t[ord].is_some_and(|m| tm < m) {
                        stats.fault("reorder_late_delivery");
                    }
                }
                // probes
                let mb = &views_before[ord];
                if let OpA::Snap { st, .. } = sop {
                    if let SnapSt::Open(o) = st {
                        let full = o.filled == sc.orders[ord].qty;
                        match mb {
                            M::InFlightCancel(cur) => {
                                if full {
                                    stats.probe("fully_filled_open_on_cancel_in_flight");
                                } else if cur.as_ref().is_some_and(|c| o.filled > c.filled) {
                                    stats.probe("cancel_raced_by_fill");
                                } else if cur.as_ref().is_some_and(|c| o.t < c.t) {
                                    stats.probe("stale_open_during_cancel_in_flight");
                                }
                            }
                            M::Open(_) if full => stats.probe("fully_filled_open_on_open"),
                            M::Untracked if ever_tracked[ord] => stats.probe("open_after_terminal"),
                            _ => {}
                        }
                    }
                }
                if let OpA::CancelResp { ok: false, .. } = sop {
                    if matches!(mb, M::InFlightCancel(Some(_))) {
                        stats.probe("cancel_err_restores_open");
                    }
                }
                if let Some(prev) = last_ord {
                    if prev != ord && sc.orders[prev].inst == sc.orders[ord].inst {
                        stats.probe("two_ids_interleaved");
                    }
                }
                last_ord = Some(ord);
            }

            // ---- R5 (both properties): nothing else changed -----------------------------------
            {
                let mut b = before.clone();
                let mut a = state.clone();
                mask(&mut b, &t);
                mask(&mut a, &t);
                if a != b {
                    violation = report(
                        ctx,
                        &mut stats,
                        pid,
                        "R5_non_interference",
                        step,
                        format!("{op:?} changed engine state outside the item(s) it names"),
                        None,
                    );
                    if violation.is_some() {
                        break 'run;
                    }
                }
            }

            // ---- C01: lifecycle model ---------------------------------------------------------
            if self.prop == PropA::C01 {
                // a Full snapshot is applied item by item; the engine only exposes the final
                // state, so fold the model over the items and compare at the end. For one-item ops
                // this is the plain step check.
                let mut allowed_per_ord: std::collections::BTreeMap<usize, Vec<M>> =
                    Default::default();
                let mut relaxed_keep: std::collections::BTreeMap<usize, bool> = Default::default();
                let mut relaxed_tracked: std::collections::BTreeSet<usize> = Default::default();
                for (ord, sop) in &order_steps {
                    let qty = sc.orders[*ord].qty;
                    let starts: Vec<M> = allowed_per_ord
                        .get(ord)
                        .cloned()
                        .unwrap_or_else(|| vec![model[*ord].clone()]);
                    if relaxed_keep.contains_key(ord) || relaxed_tracked.contains(ord) {
                        // already relaxed within this event: stay relaxed
                        continue;
                    }
                    let mut next: Vec<M> = Vec::new();
                    for s in &starts {
                        match expect_op(s, sop, qty) {
                            Exp::OneOf(v) => {
                                for x in v {
                                    if !next.contains(&x) {
                                        next.push(x);
                                    }
                                }
                            }
                            Exp::KeepTracked => {
                                let e = relaxed_keep.entry(*ord).or_insert(false);
                                *e = *e || s.tracked();
                            }
                            Exp::Tracked => {
                                relaxed_tracked.insert(*ord);
                            }
                        }
                    }
                    allowed_per_ord.insert(*ord, next);
                }
                for (ord, _) in &order_steps {
                    let ord = *ord;
                    let now = view(&state, sc.orders[ord].inst, ord);
                    let before_m = &views_before[ord];
                    let n_steps = order_steps.iter().filter(|(o, _)| *o == ord).count();
                    if n_steps > 1 && (relaxed_tracked.contains(&ord) || relaxed_keep.contains_key(&ord)) {
                        // several reports for one order inside one event, one of them relaxed:
                        // the intermediate states are not observable, only re-sync the model
                        model[ord] = now.clone();
                        if now.tracked() {
                            ever_tracked[ord] = true;
                        }
                        continue;
                    }
                    // R4: while continuously tracked the held exchange timestamp never decreases
                    // (with several reports in one event the order may be dropped and re-tracked
                    // in between, which the exact fold below decides)
                    if let (Some(b), Some(a), 1) = (before_m.data(), now.data(), n_steps) {
                        if a.t < b.t {
                            violation = report(
                                ctx,
                                &mut stats,
                                pid,
                                "R4_timestamp_regressed",
                                step,
                                format!(
                                    "order c{ord}: held exchange time went back {} -> {} on {op:?}",
                                    b.t, a.t
                                ),
                                None,
                            );
                            if violation.is_some() {
                                break 'run;
                            }
                        }
                    }
                    if relaxed_tracked.contains(&ord) {
                        stats.probe("duplicate_open_request_on_tracked");
                        if !now.tracked() {
                            violation = report(
                                ctx,
                                &mut stats,
                                pid,
                                "R1_tracked_set",
                                step,
                                format!("order c{ord} untracked after an open request was sent"),
                                None,
                            );
                            if violation.is_some() {
                                break 'run;
                            }
                        }
                    } else if let Some(must_keep) = relaxed_keep.get(&ord) {
                        stats.probe("in_flight_state_snapshot");
                        if *must_keep && !now.tracked() {
                            violation = report(
                                ctx,
                                &mut stats,
                                pid,
                                "R1_tracked_set",
                                step,
                                format!(
                                    "order c{ord} dropped by a snapshot carrying an in-flight state"
                                ),
                                None,
                            );
                            if violation.is_some() {
                                break 'run;
                            }
                        }
                    } else {
                        let allowed = allowed_per_ord.get(&ord).cloned().unwrap_or_default();
                        if !allowed.contains(&now) {
                            let tracked_ok = allowed.iter().any(|m| m.tracked() == now.tracked());
                            let kind_ok = allowed.iter().any(|m| {
                                std::mem::discriminant(m) == std::mem::discriminant(&now)
                            });
                            let rule = if !tracked_ok {
                                "R1_tracked_set"
                            } else if !kind_ok {
                                "R2_state_kind"
                            } else {
                                "R3_exchange_data"
                            };
                            violation = report(
                                ctx,
                                &mut stats,
                                pid,
                                rule,
                                step,
                                format!(
                                    "order c{ord} (qty {}): before {:?}, applied {op:?}, engine holds {:?}, lifecycle allows {:?}",
                                    sc.orders[ord].qty, model[ord], now, allowed
                                ),
                                None,
                            );
                            if violation.is_some() {
                                break 'run;
                            }
                        }
                    }
                    model[ord] = now.clone();
                    if now.tracked() {
                        ever_tracked[ord] = true;
                    }
                }
                // orders not named by the op: model unchanged (R5 already compared the bytes)
            }

            // ---- C09: greatest delivered timestamp wins, per item ----------------------------
            // record deliveries first
            let mut record = |op: &OpA, del: &mut Delivered| match op {
                OpA::Bal { asset, t, total } => del.bal[*asset].push((*t, *total)),
                OpA::Trade { inst, t, price } => del.trade[*inst].push((*t, *price)),
                OpA::L1 { inst, t, bid, ask } => del.l1[*inst].push((*t, *bid, *ask)),
                _ => {}
            };
            record(op, &mut del);
            if let OpA::Full { items } = op {
                for it in items {
                    if let FullItem::Bal { asset, t, total } = it {
                        del.bal[*asset].push((*t, *total));
                    }
                }
            }
            match op {
                OpA::Bal { t, .. } | OpA::Trade { t, .. } | OpA::L1 { t, .. } => {
                    max_time = max_time.max(*t)
                }
                _ => {}
            }
            if self.prop == PropA::C09 {
                // late-delivery fault counter for non-order items
                let late = match op {
                    OpA::Bal { asset, t, .. } => {
                        del.bal[*asset].iter().rev().skip(1).any(|(x, _)| x > t)
                    }
                    OpA::Trade { inst, t, .. } => {
                        del.trade[*inst].iter().rev().skip(1).any(|(x, _)| x > t)
                    }
                    OpA::L1 { inst, t, .. } => {
                        del.l1[*inst].iter().rev().skip(1).any(|(x, _, _)| x > t)
                    }
                    _ => false,
                };
                if late {
                    stats.fault("reorder_late_delivery");
                    stats.probe("older_message_after_newer");
                }
                let equal_ts = match op {
                    OpA::Bal { asset, t, .. } => {
                        del.bal[*asset].iter().rev().skip(1).any(|(x, _)| x == t)
                    }
                    OpA::Trade { inst, t, .. } => {
                        del.trade[*inst].iter().rev().skip(1).any(|(x, _)| x == t)
                    }
                    OpA::L1 { inst, t, .. } => {
                        del.l1[*inst].iter().rev().skip(1).any(|(x, _, _)| x == t)
                    }
                    _ => false,
                };
                if equal_ts {
                    stats.probe("equal_timestamp_redelivery");
                }
                if matches!(op, OpA::Full { items } if items.len() > 1) {
                    stats.probe("multi_item_full_snapshot");
                }
                // balances
                for a in 0..w.n_assets() {
                    let held = state.assets.asset_index(&AssetIndex(a)).balance;
                    let d = &del.bal[a];
                    let ok = match (held, d.iter().map(|x| x.0).max()) {
                        (None, None) => true,
                        (Some(h), Some(mx)) => {
                            ms_of(h.time) == mx
                                && d.iter().any(|(t, v)| *t == mx && dec(*v) == h.value.total)
                        }
                        _ => false,
                    };
                    if !ok {
                        violation = report(
                            ctx,
                            &mut stats,
                            pid,
                            "T1_balance_not_latest",
                            step,
                            format!(
                                "asset {a}: engine holds {:?} after {op:?}; delivered (t,total) so far {:?}",
                                held.map(|h| (ms_of(h.time), h.value.total)),
                                d
                            ),
                            None,
                        );
                        if violation.is_some() {
                            break 'run;
                        }
                    }
                }
                // market data
                for i in 0..w.n_inst() {
                    let data = &state.instruments.instrument_index(&InstrumentIndex(i)).data;
                    let d = &del.trade[i];
                    let held = data.last_traded_price;
                    let ok = match (held, d.iter().map(|x| x.0).max()) {
                        (None, None) => true,
                        (Some(h), Some(mx)) => {
                            ms_of(h.time) == mx
                                && d.iter().any(|(t, p)| *t == mx && dec(*p) == h.value)
                        }
                        _ => false,
                    };
                    if !ok {
                        violation = report(
                            ctx,
                            &mut stats,
                            pid,
                            "T2_last_trade_not_latest",
                            step,
                            format!(
                                "instrument {i}: engine holds {:?} after {op:?}; delivered (t,price) {:?}",
                                held.map(|h| (ms_of(h.time), h.value)),
                                d
                            ),
                            None,
                        );
                        if violation.is_some() {
                            break 'run;
                        }
                    }
                    let d = &del.l1[i];
                    let l1 = &data.l1;
                    let ok = match d.iter().map(|x| x.0).max() {
                        None => *l1 == Default::default(),
                        Some(mx) => {
                            ms_of(l1.last_update_time) == mx
                                && d.iter().any(|(t, b, a)| {
                                    *t == mx
                                        && l1.best_bid.map(|l| l.price) == (*b > 0).then(|| dec(*b))
                                        && l1.best_ask.map(|l| l.price) == (*a > 0).then(|| dec(*a))
                                })
                        }
                    };
                    if !ok {
                        violation = report(
                            ctx,
                            &mut stats,
                            pid,
                            "T3_top_of_book_not_latest",
                            step,
                            format!(
                                "instrument {i}: engine holds l1 {:?} after {op:?}; delivered (t,bid,ask) {:?}",
                                l1, d
                            ),
                            None,
                        );
                        if violation.is_some() {
                            break 'run;
                        }
                    }
                }
            }
            // orders (bookkeeping for both; rule only for C09)
            for (ord, sop) in &order_steps {
                let ord = *ord;
                let mut t_msg: Option<i64> = None;
                if let OpA::Snap { st, .. } = sop {
                    match st {
                        SnapSt::Open(o) | SnapSt::InFlightCancel(Some(o)) => {
                            del.open[ord].push(o.clone());
                            t_msg = Some(o.t);
                        }
                        SnapSt::Cancelled { t } => t_msg = Some(*t),
                        _ => {}
                    }
                }
                if let OpA::CancelResp { ok: true, t, .. } = sop {
                    t_msg = Some(*t);
                }
                if let Some(tm) = t_msg {
                    del.max_t[ord] = Some(del.max_t[ord].map_or(tm, |m| m.max(tm)));
                }
            }
            if self.prop == PropA::C09 {
                for (ord, _) in &order_steps {
                    let ord = *ord;
                    let now = view(&state, sc.orders[ord].inst, ord);
                    if now.tracked() {
                        ever_tracked[ord] = true;
                    }
                    // exchange data thrown away by a mere cancel request while the order stays tracked
                    // (never happens on the recorded tree): what follows is not the recorded finding
                    if views_before[ord].data().is_some()
                        && now.data().is_none()
                        && now.tracked()
                        && order_steps.iter().filter(|(o, _)| *o == ord).all(|(_, sop)| matches!(sop, OpA::CancelSent { .. }))
                    {
                        data_dropped_by_cancel[ord] = true;
                    }
                    let Some(held) = now.data() else { continue };
                    let delivered = del.open[ord].contains(held);
                    let newest = del.max_t[ord].is_none_or(|m| held.t >= m);
                    if delivered && newest {
                        data_dropped_by_cancel[ord] = false;
                    }
                    if !(delivered && newest) {
                        // with several reports for this order inside one event, an earlier item
                        // may have ended tracking (terminal report) before the stale one arrived
                        let ended_within_event = order_steps.iter().any(|(o, sop)| {
                            *o == ord
                                && match sop {
                                    OpA::Snap { st, .. } => match st {
                                        SnapSt::Open(x) => x.filled == sc.orders[ord].qty,
                                        SnapSt::FullyFilled
                                        | SnapSt::Cancelled { .. }
                                        | SnapSt::Expired
                                        | SnapSt::Failed => true,
                                        _ => false,
                                    },
                                    _ => false,
                                }
                        });
                        let had_data = views_before[ord].data().is_some() && !ended_within_event;
                        let key = if !had_data && delivered && !data_dropped_by_cancel[ord] {
                            // engine keeps no memory of finished / re-requested orders (D5)
                            Some("C09-stale-open-retracks-order-without-held-data")
                        } else {
                            None
                        };
                        violation = report(
                            ctx,
                            &mut stats,
                            pid,
                            "T4_order_details_not_latest",
                            step,
                            format!(
                                "order c{ord}: engine holds open details {:?} after {op:?} (before: {:?}); greatest exchange time delivered so far {:?}",
                                held, views_before[ord], del.max_t[ord]
                            ),
                            key,
                        );
                        if violation.is_some() {
                            break 'run;
                        }
                        // known finding: forget history so the same ghost is reported once
                        del.max_t[ord] = Some(held.t);
                    }
                }
            }
        }
        stats.sim_time_ms = max_time.max(0) as u64;
        Outcome {
            violation,
            stats,
            log_hash: log.hash(),
            signature: log.signature(),
            log: log.lines,
        }
    }

    fn shrink_len(&self, sc: &ScenarioA) -> usize {
        sc.ops.len()
    }
    fn shrink_remove(&self, sc: &ScenarioA, from: usize, to: usize) -> ScenarioA {
        let mut s = sc.clone();
        s.ops.drain(from..to);
        s
    }
    fn simplify(&self, sc: &ScenarioA) -> Vec<ScenarioA> {
        let mut out = Vec::new();
        // drop fault annotations, shrink Full snapshots, drop initial balances
        for (k, (op, _)) in sc.ops.iter().enumerate() {
            if let OpA::Full { items } = op {
                if items.len() > 1 {
                    for j in 0..items.len() {
                        let mut s = sc.clone();
                        if let OpA::Full { items } = &mut s.ops[k].0 {
                            items.remove(j);
                        }
                        out.push(s);
                    }
                } else if let Some(FullItem::Ord { ord, st }) = items.first() {
                    let mut s = sc.clone();
                    s.ops[k].0 = OpA::Snap {
                        ord: *ord,
                        st: st.clone(),
                    };
                    out.push(s);
                } else if let Some(FullItem::Bal { asset, t, total }) = items.first() {
                    let mut s = sc.clone();
                    s.ops[k].0 = OpA::Bal {
                        asset: *asset,
                        t: *t,
                        total: *total,
                    };
                    out.push(s);
                }
            }
        }
        if sc.init_bal.iter().any(Option::is_some) {
            let mut s = sc.clone();
            s.init_bal.iter_mut().for_each(|b| *b = None);
            out.push(s);
        }
        if sc.topo > 0 {
            let mut s = sc.clone();
            s.topo -= 1;
            out.push(s);
        }
        out
    }

    fn rule_text(&self) -> String {
        match self.prop {
            PropA::C01 => "each run = one PRNG-planned scenario: 1-3 instruments on 1-2 exchanges, 2-6 client order ids, and an interleaved delivery sequence of {open request sent, cancel request sent, order report in any of 7 states, cancel response ok/err, full account snapshot} produced by (a) a consistent simulated exchange behind an in-order network, (b) the same exchange behind a delaying / reordering / duplicating / dropping network with stale full snapshots, (c) adversarial arbitrary reports. After every delivered message the real EngineState is compared with a per-order lifecycle model (R1 tracked set, R2 state kind, R3 exchange data, R4 timestamp monotone while tracked, R5 byte-identical non-interference). distinct = distinct ordering skeleton (sequence of message kinds per order id, values stripped); non-trivial = at least one network fault actually fired AND at least one rare-branch probe was hit in that run".into(),
            PropA::C09 => "each run = one PRNG-planned delivery sequence (permutation with repetition, equal timestamps frequent) of timestamped balance snapshots, order reports, full account snapshots (several items at once), public trades and top-of-book updates over 2-5 assets / 1-3 instruments / 1-4 orders, fed through EngineState::update_from_account / update_from_market. After every delivery, for every asset, instrument and order: held timestamp == greatest timestamp delivered so far and held value was delivered with that timestamp (T1-T4), and everything else is byte-identical (R5). distinct = distinct ordering skeleton; non-trivial = at least one late/duplicate delivery fired AND one probe (older-after-newer, equal-timestamp redelivery, multi-item snapshot, open-after-terminal) hit".into(),
        }
    }
    fn components_real(&self) -> Vec<&'static str> {
        vec![
            "barter::engine::state::EngineState::{update_from_account,update_from_market}",
            "barter::engine::state::order::Orders (OrderManager + InFlightRequestRecorder)",
            "barter::engine::state::instrument::InstrumentState",
            "barter::engine::state::asset::AssetState::update_from_balance",
            "barter::engine::state::instrument::data::DefaultInstrumentMarketData",
            "barter::engine::state::builder::EngineStateBuilder",
            "barter_instrument::index::IndexedInstruments",
        ]
    }
    fn components_stub(&self) -> Vec<&'static str> {
        vec![
            "exchange (ground-truth order scripts / adversarial report generator)",
            "network between exchange and engine (delay, reorder, duplicate, drop, stale full snapshot)",
        ]
    }
    fn fault_kinds(&self) -> Vec<&'static str> {
        vec![
            "delay",
            "reorder_late_delivery",
            "duplicate",
            "drop",
            "stale_full_snapshot",
            "duplicate_request_record",
            "state_persisted_and_restored",
        ]
    }
    fn probe_kinds(&self) -> Vec<&'static str> {
        match self.prop {
            PropA::C01 => vec![
                "cancel_raced_by_fill",
                "stale_open_during_cancel_in_flight",
                "fully_filled_open_on_open",
                "fully_filled_open_on_cancel_in_flight",
                "open_after_terminal",
                "cancel_err_restores_open",
                "two_ids_interleaved",
                "duplicate_open_request_on_tracked",
                "in_flight_state_snapshot",
            ],
            PropA::C09 => vec![
                "older_message_after_newer",
                "equal_timestamp_redelivery",
                "multi_item_full_snapshot",
                "open_after_terminal",
            ],
        }
    }
    fn assumptions(&self) -> Vec<String> {
        vec![
            "client order ids are unique per order within a run".into(),
            "order reports keep side/price/quantity fixed per order; filled <= quantity".into(),
            "equal exchange timestamps: either delivered value is accepted".into(),
            "snapshots that themselves carry an in-flight state are only checked for 'tracked stays tracked', R4 and R5 (no exchange produces them)".into(),
        ]
    }
}

// ---------------------------------------------------------------------------------------------
// Planner
// ---------------------------------------------------------------------------------------------

#[allow(clippy::too_many_arguments)]
fn push_msg(
    msgs: &mut Vec<(i64, u64, OpA, Option<String>)>,
    rng: &mut Rng,
    seq: &mut u64,
    faulty: bool,
    t_ex: i64,
    op: OpA,
    program: bool,
) {
    *seq += 1;
    if program || !faulty {
        msgs.push((t_ex, *seq, op, None));
        return;
    }
    // faulty network
    if rng.chance(1, 10) {
        // dropped: never delivered
        msgs.push((i64::MAX, *seq, op, Some("dropped".into())));
        return;
    }
    let delayed = rng.chance(1, 2);
    let delay = if delayed { rng.range(1, 300) } else { 0 };
    msgs.push((
        t_ex + delay,
        *seq,
        op.clone(),
        if delayed { Some("delayed".into()) } else { None },
    ));
    if rng.chance(15, 100) {
        *seq += 1;
        let d2 = rng.range(0, 400);
        msgs.push((t_ex + delay + d2, *seq, op, Some("dup".into())));
    }
}

fn plan_a(prop: PropA, rng: &mut Rng, sub: usize) -> ScenarioA {
    let topo = rng.below(3) as u8;
    let w = World::new(topo);
    let n_ord = match prop {
        PropA::C01 => 2 + rng.usize(5),
        PropA::C09 => 1 + rng.usize(4),
    };
    let orders: Vec<OrdDef> = (0..n_ord)
        .map(|_| OrdDef {
            inst: rng.usize(w.n_inst()),
            qty: 1 + rng.range(0, 2),
            buy: rng.chance(1, 2),
            tif: *rng.pick(&[0u8, 0, 0, 1, 2, 3]),
        })
        .collect();
    let init_bal: Vec<Option<i64>> = (0..w.n_assets())
        .map(|_| {
            if rng.chance(1, 2) {
                Some(rng.range(0, 1000))
            } else {
                None
            }
        })
        .collect();

    // (deliver_at, seq, op, fault)
    let mut msgs: Vec<(i64, u64, OpA, Option<String>)> = Vec::new();
    let mut seq = 0u64;
    let faulty = sub == 1;
    let adversarial = sub >= 2;
    let unconstrained = sub == 3;

    // physical law for adversarial reports: per order, filled quantity is a non-decreasing
    // *function* of exchange time (so a 'fully filled' report is never contradicted by a newer one)
    let adv_tmax = *rng.pick(&[5i64, 20, 200]);
    let fill_times: Vec<Vec<i64>> = orders
        .iter()
        .map(|o| {
            let mut v: Vec<i64> = (0..o.qty)
                .map(|_| rng.range(0, adv_tmax + adv_tmax / 2 + 1))
                .collect();
            v.sort();
            v
        })
        .collect();
    // sub-batch 3 drops the law: any filled quantity may come with any timestamp (the statement
    // quantifies over reports with *any* exchange timestamp, including contradictory stale ones)
    let law_seed = rng.next_u64();
    let filled_at = |ord: usize, t: i64| -> i64 {
        if unconstrained {
            let mut x = law_seed ^ (ord as u64).wrapping_mul(0x9E37) ^ (t as u64).wrapping_mul(0xA24B_AED4_963E_E407);
            let r = crate::kit::rng::splitmix(&mut x);
            (r % (orders[ord].qty as u64 + 1)) as i64
        } else {
            fill_times[ord].iter().filter(|x| **x <= t).count() as i64
        }
    };

    if !adversarial {
        // ---- consistent exchange: ground-truth script per order ---------------------------
        for (ord, def) in orders.iter().enumerate() {
            let t0 = rng.range(0, 300);
            push_msg(&mut msgs, rng, &mut seq, faulty, t0, OpA::OpenSent { ord }, true);
            if faulty && rng.chance(1, 20) {
                let t = t0 + rng.range(0, 50);
                seq += 1;
                msgs.push((t, seq, OpA::OpenSent { ord }, Some("dup_request".into())));
            }
            let mut t = t0 + rng.range(1, 20);
            if rng.chance(1, 10) {
                push_msg(&mut msgs, rng, &mut seq, faulty,
                    t,
                    OpA::Snap {
                        ord,
                        st: SnapSt::Failed,
                    },
                    false,
                );
                continue;
            }
            let idk = rng.below(2) as u8;
            // ack (response path) + maybe the same on the stream
            let mut filled = 0i64;
            let ack = OD {
                id: idk,
                t,
                filled,
            };
            push_msg(&mut msgs, rng, &mut seq, faulty,
                t,
                OpA::Snap {
                    ord,
                    st: SnapSt::Open(ack.clone()),
                },
                false,
            );
            if rng.chance(1, 3) {
                push_msg(&mut msgs, rng, &mut seq, faulty,
                    t,
                    OpA::Snap {
                        ord,
                        st: SnapSt::Open(ack.clone()),
                    },
                    false,
                );
            }
            let mut last = ack;
            // cancel decision
            let cancel_at = if rng.chance(1, 2) {
                Some(t0 + rng.range(0, 200))
            } else {
                None
            };
            let mut cancel_sent = false;
            let mut finished = false;
            let n_events = rng.range(0, 4);
            for _ in 0..n_events {
                t += rng.range(0, 60);
                if let (Some(tc), false) = (cancel_at, cancel_sent) {
                    if tc <= t {
                        cancel_sent = true;
                        push_msg(&mut msgs, rng, &mut seq, faulty, tc, OpA::CancelSent { ord }, true);
                        // exchange handles the cancel at t (>= tc): order still live => cancelled
                        let t_c = t.max(tc) + rng.range(0, 10);
                        if rng.chance(4, 5) {
                            push_msg(&mut msgs, rng, &mut seq, faulty,
                                t_c,
                                OpA::CancelResp {
                                    ord,
                                    ok: true,
                                    t: t_c,
                                },
                                false,
                            );
                            if rng.chance(1, 2) {
                                push_msg(&mut msgs, rng, &mut seq, faulty,
                                    t_c,
                                    OpA::Snap {
                                        ord,
                                        st: SnapSt::Cancelled { t: t_c },
                                    },
                                    false,
                                );
                            }
                            finished = true;
                            break;
                        } else {
                            // cancel rejected (eg rate limit): order stays live
                            push_msg(&mut msgs, rng, &mut seq, faulty,
                                t_c,
                                OpA::CancelResp {
                                    ord,
                                    ok: false,
                                    t: t_c,
                                },
                                false,
                            );
                        }
                    }
                }
                // a fill
                if filled < def.qty {
                    filled += 1;
                    let o = OD {
                        id: idk,
                        t,
                        filled,
                    };
                    last = o.clone();
                    if filled == def.qty {
                        // terminal: reported either as FullyFilled or as Open with nothing left
                        let st = if rng.chance(1, 2) {
                            SnapSt::FullyFilled
                        } else {
                            SnapSt::Open(o)
                        };
                        push_msg(&mut msgs, rng, &mut seq, faulty, t, OpA::Snap { ord, st }, false);
                        finished = true;
                        // a cancel racing the final fill fails
                        if let (Some(tc), false) = (cancel_at, cancel_sent) {
                            cancel_sent = true;
                            let t_resp = t + rng.range(0, 10);
                            push_msg(&mut msgs, rng, &mut seq, faulty, tc.min(t), OpA::CancelSent { ord }, true);
                            push_msg(&mut msgs, rng, &mut seq, faulty,
                                t_resp,
                                OpA::CancelResp {
                                    ord,
                                    ok: false,
                                    t,
                                },
                                false,
                            );
                        }
                        break;
                    } else {
                        push_msg(&mut msgs, rng, &mut seq, faulty,
                            t,
                            OpA::Snap {
                                ord,
                                st: SnapSt::Open(o),
                            },
                            false,
                        );
                    }
                }
            }
            if !finished && rng.chance(1, 6) {
                t += rng.range(1, 60);
                push_msg(&mut msgs, rng, &mut seq, faulty,
                    t,
                    OpA::Snap {
                        ord,
                        st: SnapSt::Expired,
                    },
                    false,
                );
            } else if !finished && faulty && rng.chance(1, 3) {
                // stale full snapshot taken while the order was open, delivered much later
                seq += 1;
                let late = t + rng.range(50, 600);
                msgs.push((
                    late,
                    seq,
                    OpA::Full {
                        items: vec![FullItem::Ord {
                            ord,
                            st: SnapSt::Open(last.clone()),
                        }],
                    },
                    Some("stale_full".into()),
                ));
            }
        }
        if faulty {
            // stale full snapshots of finished / progressed orders: replay an earlier open state
            let opens: Vec<(i64, usize, OD)> = msgs
                .iter()
                .filter_map(|(_, _, op, _)| match op {
                    OpA::Snap {
                        ord,
                        st: SnapSt::Open(o),
                    } => Some((o.t, *ord, o.clone())),
                    _ => None,
                })
                .collect();
            let n = rng.usize(3);
            for _ in 0..n {
                if opens.is_empty() {
                    break;
                }
                let k = 1 + rng.usize(3.min(opens.len()));
                let mut items = Vec::new();
                let mut tmax = 0;
                for _ in 0..k {
                    let (t, ord, o) = rng.pick(&opens).clone();
                    tmax = tmax.max(t);
                    if !items
                        .iter()
                        .any(|it| matches!(it, FullItem::Ord { ord: o2, .. } if *o2 == ord))
                    {
                        items.push(FullItem::Ord {
                            ord,
                            st: SnapSt::Open(o),
                        });
                    }
                }
                seq += 1;
                msgs.push((
                    tmax + rng.range(0, 700),
                    seq,
                    OpA::Full { items },
                    Some("stale_full".into()),
                ));
            }
        }
    } else {
        // ---- adversarial: arbitrary reports ------------------------------------------------
        let n = 5 + rng.usize(if prop == PropA::C01 { 60 } else { 25 });
        let tmax = adv_tmax;
        for k in 0..n {
            let ord = rng.usize(n_ord);
            let od = |rng: &mut Rng| {
                let t = rng.range(0, tmax);
                OD {
                    id: rng.below(2) as u8,
                    t,
                    filled: filled_at(ord, t),
                }
            };
            // C09 is about messages an exchange sends: no reports that carry an in-flight state
            let pick = match (prop, rng.below(12)) {
                (PropA::C09, 0 | 6) => 1,
                (_, x) => x,
            };
            let st = match pick {
                0 => SnapSt::InFlightOpen,
                1..=5 => SnapSt::Open(od(rng)),
                6 => SnapSt::InFlightCancel(if rng.chance(1, 2) {
                    Some(od(rng))
                } else {
                    None
                }),
                7 => SnapSt::FullyFilled,
                8 => SnapSt::Cancelled {
                    t: rng.range(0, tmax),
                },
                9 => SnapSt::Expired,
                10 => SnapSt::Failed,
                _ => {
                    // bias towards the 'open report with nothing left' shape
                    let t_full = *fill_times[ord].last().unwrap();
                    let t = if t_full <= tmax {
                        rng.range(t_full, tmax)
                    } else {
                        rng.range(0, tmax)
                    };
                    SnapSt::Open(OD {
                        id: 0,
                        t,
                        filled: filled_at(ord, t),
                    })
                }
            };
            let op = match rng.below(10) {
                0 | 1 => OpA::OpenSent { ord },
                2 | 3 => OpA::CancelSent { ord },
                4 => OpA::CancelResp {
                    ord,
                    ok: rng.chance(1, 2),
                    t: rng.range(0, tmax),
                },
                5 => {
                    let mut items = vec![FullItem::Ord { ord, st }];
                    if rng.chance(1, 2) {
                        let o2 = rng.usize(n_ord);
                        let t2 = rng.range(0, tmax);
                        items.push(FullItem::Ord {
                            ord: o2,
                            st: SnapSt::Open(OD {
                                id: 0,
                                t: t2,
                                filled: filled_at(o2, t2),
                            }),
                        });
                    }
                    OpA::Full { items }
                }
                _ => OpA::Snap { ord, st },
            };
            msgs.push((k as i64, k as u64, op, None));
        }
    }

    // ---- C09 extras (and light noise for C01's non-interference rule) ----------------------
    let extra_sets = match prop {
        PropA::C09 => 2 + rng.usize(4),
        PropA::C01 => rng.usize(2),
    };
    let horizon = msgs
        .iter()
        .map(|m| m.0)
        .filter(|t| *t != i64::MAX)
        .max()
        .unwrap_or(10)
        .max(10);
    for _ in 0..extra_sets {
        // one item, a finite set of timestamped messages, delivered as a permutation with repetition
        let kind = rng.below(3);
        let k = 1 + rng.usize(4);
        let tspan = *rng.pick(&[2i64, 10, 100]);
        let set: Vec<(i64, i64, i64)> = (0..k)
            .map(|_| {
                (
                    rng.range(0, tspan),
                    rng.range(1, 500),
                    rng.range(501, 900),
                )
            })
            .collect();
        let len = if sub == 0 { k } else { k + rng.usize(k + 1) };
        let item = match kind {
            0 => rng.usize(w.n_assets()),
            _ => rng.usize(w.n_inst()),
        };
        let mut order: Vec<usize> = (0..len).map(|j| if j < k { j } else { rng.usize(k) }).collect();
        if sub == 0 {
            order.sort_by_key(|j| set[*j].0);
        } else {
            rng.shuffle(&mut order);
        }
        let mut seen = vec![false; k];
        for j in order {
            let (t, a, b) = set[j];
            let fault = if seen[j] { Some("dup".to_string()) } else { None };
            seen[j] = true;
            let op = match kind {
                0 => {
                    if sub != 0 && rng.chance(1, 4) {
                        let mut items = vec![FullItem::Bal {
                            asset: item,
                            t,
                            total: a,
                        }];
                        if rng.chance(1, 2) {
                            items.push(FullItem::Bal {
                                asset: rng.usize(w.n_assets()),
                                t: rng.range(0, tspan),
                                total: rng.range(1, 500),
                            });
                        }
                        if adversarial && rng.chance(1, 2) && n_ord > 0 {
                            let ord = rng.usize(n_ord);
                            let t2 = rng.range(0, adv_tmax);
                            items.push(FullItem::Ord {
                                ord,
                                st: SnapSt::Open(OD {
                                    id: 0,
                                    t: t2,
                                    filled: filled_at(ord, t2),
                                }),
                            });
                        }
                        OpA::Full { items }
                    } else {
                        OpA::Bal {
                            asset: item,
                            t,
                            total: a,
                        }
                    }
                }
                1 => OpA::Trade {
                    inst: item,
                    t,
                    price: a,
                },
                _ => OpA::L1 {
                    inst: item,
                    t,
                    // sometimes one side, or both, of the top of book is empty (a legal value)
                    bid: if rng.chance(1, 8) { 0 } else { a },
                    ask: if rng.chance(1, 8) { 0 } else { b },
                },
            };
            seq += 1;
            msgs.push((rng.range(0, horizon), seq + 1_000_000, op, fault));
        }
    }

    // fills that name a tracked order's exchange id, and liquidation prints: neither is an order
    // report, a trade print or a top of book
    for _ in 0..rng.usize(3) {
        if n_ord > 0 {
            seq += 1;
            msgs.push((rng.range(0, horizon), seq + 2_000_000, OpA::AcctFill { ord: rng.usize(n_ord), t: rng.range(0, 300), qty: 1 }, None));
        }
    }
    for _ in 0..rng.usize(3) {
        seq += 1;
        msgs.push((rng.range(0, horizon), seq + 2_000_000, OpA::Liq { inst: rng.usize(w.n_inst()), t: rng.range(0, 300), price: rng.range(1, 500) }, None));
    }
    if rng.chance(1, 4) {
        seq += 1;
        msgs.push((rng.range(0, horizon), seq + 2_000_000, OpA::Restore, Some("state_persisted_and_restored".into())));
    }
    msgs.sort_by_key(|m| (m.0, m.1));
    // dropped messages never arrive; the *next* delivered message carries the 'drop fired' tag
    let mut ops: Vec<(OpA, Option<String>)> = Vec::new();
    let dropped = msgs.iter().filter(|m| m.0 == i64::MAX).count();
    for (t, _, op, f) in msgs {
        if t == i64::MAX {
            continue;
        }
        ops.push((op, f));
    }
    ScenarioA {
        topo,
        orders,
        init_bal,
        ops,
        n_dropped: dropped as u64,
        tick_us: *rng.pick(&[None, None, Some(250i64), Some(7), Some(1)]),
        qty_scale: *rng.pick(&[0u32, 0, 0, 0, 3, 9, 10]),
        alt_strategy: *rng.pick(&[0u8, 0, 1, 2, 3]),
    }
}
