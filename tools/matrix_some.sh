#!/bin/sh
# usage: tools/matrix_some.sh <name> <PROP>...   e.g. tools/matrix_some.sh C10_13 C10 C14
# Like tools/matrix_rows.sh, but runs only the named quick checks against the seeded change and
# writes a full-width row into seeded/MATRIX.txt with "-" in the columns that were not run.
cd /verif
export VERIF_NO_EVIDENCE=1
PROPS="C01 C03 C04 C06 C07 C08 C09 C10 C12 C14 C15 C19 C20"
OUT=seeded/MATRIX.txt
name=$1; shift
RUN=" $* "
d=seeded/$name
[ -f $d/patch.diff ] || { echo "$name: no patch"; exit 2; }
cd /repo; [ -z "$(git status --porcelain)" ] || { echo "repo dirty"; exit 2; }
git apply /verif/$d/patch.diff || { echo "$name patch-does-not-apply"; exit 2; }
cd /verif
row="$name"
for P in $PROPS; do
  case "$RUN" in *" $P "*) ;; *) row="$row -"; continue;; esac
  ./check $P quick > /tmp/matrix_${name}_$P.log 2>&1; code=$?
  case $code in 0) r=".";; 1) r="X";; *) r="E$code";; esac
  row="$row $r"
done
git -C /repo checkout -- .
grep -v "^$name " $OUT > $OUT.tmp; mv $OUT.tmp $OUT
echo "$row" >> $OUT
echo "$row"
