#!/bin/sh
# usage: tools/matrix_rows.sh [-o] <name>...     e.g. tools/matrix_rows.sh C01_9 C01_10
# Like tools/matrix.sh but only for the named seeded changes; rows are appended to (or replace
# existing rows of) seeded/MATRIX.txt. With -o only the check of the property the change breaks is
# run (other columns show "-"): a quick regression pass after a simulator was extended.
cd /verif
export VERIF_NO_EVIDENCE=1
PROPS="C01 C03 C04 C06 C07 C08 C09 C10 C12 C14 C15 C19 C20"
OUT=seeded/MATRIX.txt
OWN=0
if [ "$1" = "-o" ]; then OWN=1; shift; fi
[ -f $OUT ] || echo "seeded-change $PROPS" > $OUT
for name in "$@"; do
  d=seeded/$name
  [ -f $d/patch.diff ] || { echo "$name: no patch"; continue; }
  cd /repo; [ -z "$(git status --porcelain)" ] || { echo "repo dirty"; exit 2; }
  git apply /verif/$d/patch.diff || { echo "$name patch-does-not-apply"; cd /verif; continue; }
  cd /verif
  row="$name"
  own=${name%_*}
  for P in $PROPS; do
    if [ $OWN = 1 ] && [ "$P" != "$own" ]; then row="$row -"; continue; fi
    ./check $P quick > /tmp/matrix_$P.log 2>&1; code=$?
    case $code in 0) r=".";; 1) r="X";; *) r="E$code";; esac
    row="$row $r"
  done
  git -C /repo checkout -- .
  if [ $OWN = 1 ]; then
    echo "$row" >> seeded/MATRIX_own_recheck.txt
  else
    grep -v "^$name " $OUT > $OUT.tmp; mv $OUT.tmp $OUT
    echo "$row" >> $OUT
  fi
  echo "$row"
done
