#!/bin/sh
# usage: tools/confirm_seeded.sh <ID> <N> <crate> <demo.rs> [testutil]
# Confirms a seeded change in the scratch worktree /tmp/wt/<ID>: (1) existing suite passes with the
# change, (2) demo fails with the change, (3) demo passes without it. Writes confirm.log + verdict.
ID=$1; N=$2; CRATE=$3; DEMO=$4; TU=$5
WT=/tmp/wt/$ID; SD=/tmp/seeded/$ID/$N; LOG=$SD/confirm.log
NAME=$(basename "$DEMO" .rs)
cd "$WT" || exit 2
git checkout -- . ; git clean -fdq -e .cargo
: > "$LOG"
testutil() {
  [ "$TU" = testutil ] || return 0
  if [ "$CRATE" = barter ]; then
    sed -i 's|^tokio = { workspace = true, features = \["fs"\]}|tokio = { workspace = true, features = ["fs", "test-util"]}|' barter/Cargo.toml
  else
    sed -i 's|^\[dev-dependencies\]$|[dev-dependencies]\ntokio = { workspace = true, features = ["test-util"] }|' $CRATE/Cargo.toml
  fi
}
git apply "$SD/patch.diff" || { echo "VERDICT patch-does-not-apply" | tee -a "$LOG"; exit 1; }
echo "### suite with change" >> "$LOG"
cargo test --workspace --no-fail-fast --offline >> "$LOG" 2>&1; SUITE=$?
FAILED=$(grep -E "^test .* \.\.\. FAILED" "$LOG" | grep -v test_historical_clock_time_delta_calculation | wc -l)
mkdir -p $CRATE/tests; cp "$SD/$DEMO" $CRATE/tests/; testutil
echo "### demo with change" >> "$LOG"
cargo test -p $CRATE --offline --test $NAME >> "$LOG" 2>&1; WITH=$?
git checkout -- . ; testutil
echo "### demo without change" >> "$LOG"
cargo test -p $CRATE --offline --test $NAME >> "$LOG" 2>&1; WITHOUT=$?
git checkout -- . ; git clean -fdq -e .cargo
echo "VERDICT id=$ID/$N suite_exit=$SUITE suite_unexpected_failures=$FAILED demo_with_change_exit=$WITH demo_without_change_exit=$WITHOUT" | tee -a "$LOG"
