#!/bin/sh
# Runs every registered quick check against every seeded change (applied to /repo's working tree,
# reverted afterwards). Output: seeded/MATRIX.txt  (rows: seeded change, cols: property checks)
cd /verif
PROPS="C01 C03 C04 C06 C07 C08 C09 C10 C12 C14 C15 C19 C20"
OUT=seeded/MATRIX.txt
echo "seeded-change $PROPS" > $OUT
export VERIF_NO_EVIDENCE=1
for d in seeded/C*_[0-9] seeded/C*_[0-9][0-9]; do
  name=$(basename $d)
  cd /repo; [ -z "$(git status --porcelain)" ] || { echo "repo dirty"; exit 2; }
  git apply /verif/$d/patch.diff || { echo "$name patch-does-not-apply" >> /verif/$OUT; cd /verif; continue; }
  cd /verif
  row="$name"
  for P in $PROPS; do
    ./check $P quick > /tmp/matrix_$P.log 2>&1; code=$?
    case $code in 0) r=".";; 1) r="X";; *) r="E$code";; esac
    row="$row $r"
  done
  git -C /repo checkout -- .
  echo "$row" >> $OUT
  echo "$row"
done
