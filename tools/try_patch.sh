#!/bin/sh
# usage: tools/try_patch.sh <patch.diff> <PROP> [PROP...]   (quick tier; set TIER=thorough to override)
# Applies the patch to /repo's working tree, runs the checks, restores the tree.
PATCH=$1; shift
cd /repo || exit 2
if [ -n "$(git status --porcelain)" ]; then echo "repo dirty, refusing"; exit 2; fi
git apply "$PATCH" || { echo "PATCH DOES NOT APPLY"; exit 2; }
for P in "$@"; do
  OUT=$(cd /verif && ./check "$P" ${TIER:-quick} 2>&1); CODE=$?
  echo "== $P exit=$CODE"; echo "$OUT" | grep -E "VIOLATION|HARNESS-ERROR|^error" | head -3 | cut -c1-420
done
git checkout -- .
