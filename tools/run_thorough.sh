#!/bin/sh
# Runs every registered thorough check once and appends the summary lines to thorough_results.txt
cd /verif
: > thorough_results.txt
for P in C01 C03 C04 C06 C07 C08 C09 C10 C12 C14 C15 C19 C20; do
  ./check $P thorough 2>&1 | grep -E "^done|VIOLATION|HARNESS|KNOWN-FINDING" | cut -c1-240 >> thorough_results.txt
done
