#!/usr/bin/env python3
"""Fill the generated blocks of DESIGN.md section 11 from evidence/*.json, thorough_results.txt,
seeded/MATRIX.txt and seeded/*/meta.json. Idempotent."""
import glob, json, os, re

HERE = os.path.dirname(os.path.dirname(os.path.abspath(__file__)))


def block(s, name, text):
    a, b = f"<!-- {name}-BEGIN -->", f"<!-- {name}-END -->"
    i, j = s.index(a) + len(a), s.index(b)
    return s[:i] + "\n" + text.rstrip("\n") + "\n" + s[j:]


def results():
    thorough = {}
    p = os.path.join(HERE, "thorough_results.txt")
    if os.path.exists(p):
        for l in open(p):
            m = re.match(r"done property=(\w+) evaluations=(\d+) .*violations=(\d+) known=(\d+) .*wall_s=([\d.]+) exit=(\d)", l)
            if m:
                thorough[m.group(1)] = (int(m.group(2)), int(m.group(3)), int(m.group(4)), float(m.group(5)), int(m.group(6)))
    rows = ["| id | simulator | quick: runs, wall, distinct signatures | faults fired (kinds) | probes at zero | known-finding hits | thorough: runs, wall, exit |",
            "|----|-----------|------|------|------|------|------|"]
    for f in sorted(glob.glob(os.path.join(HERE, "evidence", "C*.json"))):
        e = json.load(open(f))
        c = e["coverage"]
        pid = e["property_id"]
        t = thorough.get(pid)
        ks = c.get("known_findings_seen", {})
        known = sum(ks.values()) if isinstance(ks, dict) else ks
        rows.append("| {} | {} | {:,} in {:.0f} s, {:,} | {} of {} | {} | {} | {} |".format(
            pid, c.get("simulator", ""), c.get("runs", 0), e.get("wall_s", 0), c.get("distinct_signatures", c.get("distinct_nontrivial", 0)),
            len([k for k, v in c.get("fault_counts_fired", {}).items() if v > 0]),
            len(c.get("fault_counts_fired", {})) + len(c.get("fault_kinds_never_fired", [])),
            ", ".join(c.get("probes_stuck_at_zero", [])) or "none",
            known,
            "{:,} in {:.0f} s, exit {}".format(t[0], t[3], t[4]) if t else "not recorded",
        ))
    return "\n".join(rows)


def seeded():
    mp = os.path.join(HERE, "seeded", "MATRIX.txt")
    lines = [l.split() for l in open(mp).read().strip().split("\n")]
    props = lines[0][1:]
    out = ["Detection matrix (`tools/matrix.sh`: each change applied to /repo, every quick check run, change reverted). "
           "`X` = reported with a replay, `.` = exit 0, `E2` = harness error, `-` = that check was not run against the change (round 8, `tools/matrix_some.sh`).", "",
           "| change | round | site | " + " | ".join(props) + " |",
           "|---|---|---|" + "---|" * len(props)]
    n_own = n = 0
    missed = []
    for l in sorted(lines[1:], key=lambda l: (l[0].split('_')[0], int(l[0].split('_')[1]))):
        name = l[0]
        meta = {}
        mpth = os.path.join(HERE, "seeded", name, "meta.json")
        if os.path.exists(mpth):
            meta = json.load(open(mpth))
        num = int(name.split("_")[1])
        rnd = (1 if num <= 2 else 2 if num <= 4 else (3 if name[:3] in ("C01", "C03", "C07", "C08", "C10", "C12", "C14", "C20") else 4) if num <= 6
               else 5 if num <= 8 else 6 if num <= 10 else 7 if num <= 12 else 8)
        if name[:3] in ("C14", "C20") and num == 3:
            rnd = 2
        own = name[:3]
        cells = l[1:]
        if len(cells) != len(props):
            out.append(f"| {name} | {rnd} | {' '.join(cells)} |")
            continue
        n += 1
        if cells[props.index(own)] == "X":
            n_own += 1
        else:
            missed.append(name)
        site = meta.get("code_site", "")
        out.append(f"| {name} | {rnd} | {site} | " + " | ".join(cells) + " |")
    out.append("")
    out.append(f"{n_own} of {n} seeded changes are reported by the quick check of the property they break"
               + (f"; not reported: {', '.join(missed)} (see their meta.json)." if missed else "."))
    return "\n".join(out)


def main():
    p = os.path.join(HERE, "DESIGN.md")
    s = open(p).read()
    s = block(s, "RESULTS", results())
    if os.path.exists(os.path.join(HERE, "seeded", "MATRIX.txt")):
        s = block(s, "SEEDED", seeded())
    open(p, "w").write(s)
    print("DESIGN.md tables regenerated")


if __name__ == "__main__":
    main()
