#!/bin/sh
# usage: tools/import_seeded.sh <ID> <N> <crate> <demo.rs> [testutil]
# Confirms /tmp/seeded/<ID>/<N> in the scratch worktree /tmp/wt/<ID> (tools/confirm_seeded.sh) and,
# whatever the verdict, copies patch / demo / README / verdict to /verif/seeded/<ID>_<N>/.
ID=$1; N=$2
DIR=$(cd "$(dirname "$0")/.." && pwd)
"$DIR/tools/confirm_seeded.sh" "$@" | grep VERDICT
mkdir -p "$DIR/seeded/${ID}_$N"
cp /tmp/seeded/$ID/$N/patch.diff /tmp/seeded/$ID/$N/README.md /tmp/seeded/$ID/$N/*.rs "$DIR/seeded/${ID}_$N/"
grep VERDICT /tmp/seeded/$ID/$N/confirm.log > "$DIR/seeded/${ID}_$N/confirm_verdict.txt"
