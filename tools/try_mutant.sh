#!/bin/sh
# usage: tools/try_mutant.sh '<sed-expr>' <file-in-repo> <PROP> [PROP...]
# Applies a sed edit to /repo's working tree, runs the quick checks, and restores the tree.
EXPR=$1; FILE=$2; shift 2
cd /repo || exit 2
if [ -n "$(git status --porcelain)" ]; then echo "repo dirty, refusing"; exit 2; fi
sed -i "$EXPR" "$FILE"
if [ -z "$(git status --porcelain)" ]; then echo "MUTANT DID NOT CHANGE ANYTHING"; exit 2; fi
git --no-pager diff --stat | tail -1
for P in "$@"; do
  OUT=$(cd /verif && ./check "$P" quick 2>&1)
  CODE=$?
  echo "== $P exit=$CODE"; echo "$OUT" | grep -E "VIOLATION|HARNESS-ERROR|error" | head -3 | cut -c1-400
done
git checkout -- . 
