#!/usr/bin/env python3
"""Generate /verif/MANIFEST.json from the table below (keeps the manifest valid and current)."""
import json, os, sys

HERE = os.path.dirname(os.path.dirname(os.path.abspath(__file__)))

# property id -> (simulator, design section, technique, level text, level note)
BUILT = {
    "C20": (
        "G", "5/C20",
        "deterministic simulation: the real run_backtests / backtest() stack (HistoricalClock via hook H1, mock exchange, execution manager, system in stream mode, shutdown_after_backtest) for 2-6 concurrent backtests on one paused, seeded tokio runtime with seeded pacing and spurious yields of the engine feed (hook H2); completeness check + differential concurrent-vs-alone comparison",
        "Seeded search over datasets x numbers of concurrent backtests x strategy parameterisations x task interleavings (per-backtest pacing with ties around the exchange latency, tokio select!/merge seed, H2 yield rate). Each engine must see every dataset event exactly once in order before shutdown (G1), the returned summary must equal an independent realised-PnL accounting of that backtest's own fills (G2), and fills, final positions, balances and realised PnL must equal those of the same backtest re-run alone in a fresh runtime (G3).",
        "Trusted: the recording strategy / data stubs, the independent PnL accounting, tokio's paused single-thread runtime. NOT explored: runtime thread counts (tokio's multi-thread scheduler cannot be controlled or replayed) and wall-clock skew/jumps. One recorded finding (engine-held balance depends on same-instant interleaving through HistoricalClock stepping backwards) is matched only when everything except engine-held balances agrees. Also checked: the events each instrument's own market-data state was fed (exactly once, in order), an upper bound on every exchange timestamp from the backtest's own clock (isolation of clocks), fill ids alone vs concurrently (verified in fresh processes), backtests sharing an id label.",
    ),
    "C06": (
        "D2", "5/C06",
        "deterministic simulation: simulated Binance (seeded book process, REST snapshot JSON, depth-event JSON frames for spot and USD-futures) behind an in-memory websocket with delivery faults (drop/dup/swap/replay/early-late start/EOF/junk frames), through the real parser, transformers+sequencers, reconnect pipeline and OrderBookL2Manager; local book compared with the exchange book as of its reported sequence after every applied event",
        "Seeded search over exchange book evolutions x snapshot points x delivery perturbations for both rule sets across 1-3 instruments on one connection, with reconnects taking fresh snapshots. Checks the admitted updates form an unbroken chain under the venue rule (B1), a break ends the connection with exactly one reconnecting notice and a snapshot next (B2), every book equals the exchange's book at the sequence it reports at every instant the manager has applied an event (B3), gap-free deliveries with an old prefix never error (B4), nothing is skipped silently and junk frames are harmless (B5).",
        "Trusted: the simulated exchange (change log + JSON rendering), the reference old/chains/break classifier written from the venue's published rule, and the probe stream between pipeline and manager. The body of MarketStream::init (TCP/TLS connect, subscribe handshake, REST fetch) needs real sockets and is not run; the harness assembles transformer + process_buffered_events (frames 'buffered during the handshake': stale / harmless ones, optionally closed by a chain-breaking event) + snapshot buffer + ExchangeStream::new in the same order. A 'busy reader' fault lets another real thread hold the shared book's read lock while the manager applies an item (the order of lock events is fixed by hand-shakes; only durations are real).",
    ),
    "C12": (
        "D1", "5/C12",
        "deterministic simulation: real reconnect combinators (init_reconnecting_stream, backoff, termination-on-error, reconnection events, error handler, forward_to) and merge driven by a seeded connection script on a paused tokio runtime; output and init-call instants compared with a script interpreter",
        "Seeded search over connection scripts (init failure bursts reaching the backoff cap, connections with items / non-terminal / terminal errors and virtual delays, empty connections, receiver dropped mid-stream) x backoff policies, and over pairs of input streams with many simultaneous emissions for merge. Every item must appear exactly once, in order, at its exact virtual instant; one reconnecting notice per connection; init calls at initial x multiplier^k capped and reset; the stream never ends by itself; merge preserves per-input order and ends exactly when either input ends.",
        "Trusted: the ~40-line script interpreter and tokio's paused clock. The consumer polls continuously (next init starts at the instant the previous connection ended). Policies keep initial <= max and avoid u64 overflow. A fourth sub-batch runs 2-3 scripted sockets (with failing re-initialisations) through the exchange channels of a real StreamBuilder and MultiStreamBuilder::{add, init}.",
    ),
    "C08": (
        "E", "5/C08",
        "deterministic simulation: real MockExchange::run + real MockExecution clients issuing concurrent operations at seeded virtual instants on a paused tokio runtime (lagging consumers, dropped callers, exchange shutdown); sequential ledger model applied in the exchange's acceptance order (linearizability with known linearization point)",
        "Seeded search over concurrent programs of market/limit buy/sell orders (known/unknown instruments, prices at the exactly-affordable boundary), balance / trade / snapshot reads and cancels against any initial balances, fee and latency. Every response, every read, every stream notification and the final balances are compared with a sequential ledger replayed in the order the exchange took the requests off its channel.",
        "Trusted: the ledger model and the pass-through tap on the request channel (adds one scheduling hop, preserves FIFO). One recorded finding (sell orders check and debit the quote asset) is matched only when the entire history agrees with that exact variant; otherwise the deviation from it is reported.",
    ),
    "C07": (
        "C", "5/C07",
        "deterministic simulation: real ExecutionManager::run on a paused, seeded current-thread tokio runtime (discrete-event virtual time) behind a scripted ExecutionClient (delays around the timeout, silence, errors), history check with exact virtual timestamps",
        "Seeded search over request batches (1-64 outstanding, bursts), per-request client behaviour (Ok / fully filled / rejected / connectivity error after any delay below, at or above the timeout, or never), timeouts from 1 ms to 60 s, select! tie-breaks and a response receiver that goes away; some requests share the client order id of another request on a different instrument. In a quarter of the runs the client is the real MockExecution in front of a scripted mock exchange that may go away while requests are outstanding. The recorded response history must contain exactly one event per accepted request, at the exact virtual instant, of the right kind and attribution, the client's own answer iff it beat the timeout.",
        "Trusted: the scripted client, the virtual-time driver/collector and tokio's paused-clock runtime (timer wheel, FIFO run queue, seeded select!). A response exactly at the timeout instant is accepted either way; a clock-leap fault (the clock jumps past the response instant and the deadline in one step) distinguishes 'response first' from 'deadline first' when the delay is below the timeout. Multi-threaded runtime scheduling is not explored.",
    ),
    "C04": (
        "C", "5/C04",
        "deterministic simulation: random multi-exchange topologies (shared names, perpetuals settled in a third asset, tracked-but-untraded exchanges) wired by the real ExecutionBuilder::add_live / ExecutionBuild::init with one ExecutionManager per traded exchange running concurrently on a paused tokio runtime, real engine issuing requests for every instrument, clients emitting account events by name (also reports naming a foreign exchange); routing invariant + index<->name round trip per topology",
        "Seeded search over instrument collections (1-4 exchanges, spot/perpetual, shared asset and instrument names, any definition order). For each topology every index of every exchange must translate index->name->index to itself and foreign indices must not translate; then, with all managers running, every request must reach exactly its exchange's client addressed to that instrument's exchange name, and every balance / order / trade event emitted by name must change exactly the named asset / instrument in the engine.",
        "Trusted: the scripted clients (one const-generic client type per simulator exchange) and the virtual-time driver. The round-trip part is a per-topology check that rides on the simulation's random topologies; the routing part needs the running managers and the builder's link table. Response timing faults are C07's subject and not injected here, except pairs of opens in flight at once that share a client order id on two instruments of one exchange; initial account snapshots may list every instrument, with or without an open order.",
    ),
    "C10": (
        "F", "5/C10",
        "deterministic simulation: one seeded engine history run three ways (step-by-step reference, sync_run_with_audit with the simulator as Iterator feed, async_run_with_audit on a paused tokio runtime with the simulator as Stream feed) + real StateReplicaManager behind a fault-injecting audit network (loss/dup/swap/replay, dropped audit receiver)",
        "Seeded search over engine event histories (market/account items, fills, reconnect notices, trading toggles, the four commands, scripted strategy output, execution-link faults; ended by shutdown, feed end or a fatal error) through the sync and async auditing runners. Checks one tick per event carrying that event with consecutive sequences after the snapshot and a terminal last tick (A1), replica == engine after every tick with in-flight markers set aside (A2), and skip / reject behaviour under audit tick loss, duplication, swap and replay (A3).",
        "Trusted: the reference trace is produced by the real process_with_audit (its tick structure is checked independently against the fed events); order comparison normalisation (drop open-in-flight, cancel-in-flight(Some o) -> open(o)). Workload restrictions: unique client order ids, strategies only issue requests in callbacks, default instrument/global data. A fourth execution goes through the real SystemBuild::init (stream mode, audit enabled) with events sent through System::feed_tx. EngineFeedMode::Iterator's spawn_blocking thread is not used (the sync runner is called directly).",
    ),
    "C03": (
        "B", "5/C03",
        "deterministic simulation: real Engine::process behind fault-injecting execution links (healthy/unhealthy/closed/missing, unknown exchange index), scripted strategy + risk refusals, trading toggles and commands; audit vs link logs vs in-flight marks after every event",
        "Seeded search over engine event histories x strategy/risk outputs x execution-link fault patterns x trading-state toggles x the four commands. The real engine processes every event; after each one the requests actually received by every link, the audit's sent/failed/refused report, the fatal-error list and terminal flag, and the in-flight marks in EngineState are compared with what the scenario generated (S1-S7).",
        "Trusted: the accounting oracle in sim_b.rs and the SimTx/strategy/risk stubs. The state after the event but before requests are sent is obtained by running the real update code on a clone (reference point for marks only). When strategy requests hit a fatal link error the engine omits the per-request output; the oracle accepts that and checks deliveries, marks and error count. An open command may re-use the client order id of an order that is still tracked (it must then be shown as open-in-flight).",
    ),
    "C14": (
        "B", "5/C14",
        "deterministic simulation: seeded per-exchange market/account link drops and heals (partition / heal) fed through the real Engine; two-booleans-per-exchange health model + on-disconnect call log after every event",
        "Seeded search over sequences of market items, account items and market/account reconnect notices across 1-4 exchanges from the all-reconnecting start, processed by the real engine; after each event every per-exchange flag, the global flag, the on-disconnect strategy call log and the audit's disconnect outputs are compared with a health model written from the statement.",
        "Trusted: the 2-boolean model and the counting strategy stub. The healing event is drawn from every account event kind. A second sub-batch produces every notice with the real reconnect combinators (one scripted reconnecting stream per exchange link, forwarded into one engine feed as SystemBuild::init does); the whole-system runs drop real account connections of a running ExecutionManager.",
    ),
    "C15": (
        "B", "5/C15",
        "deterministic simulation: seeded interleavings of the fill stream and the priced market stream into one engine feed; independent PnL estimate evaluated after every event",
        "Seeded search over interleavings of fills (open / increase / reduce / flip, with and without fees) and market events (public trades, top-of-book, late ones ignored by the data guard, non-priced kinds) on 1-3 instruments through the real Engine::process; after every event pnl_unrealised of every open position is compared with the documented estimate computed independently (P1 market refresh, P2 after fill, P3 unchanged otherwise).",
        "Trusted: the estimate formula in sim_b.rs (tolerance 1e-9) and reading the current price through the public InstrumentDataState::price(). One recorded finding (opening fill with a non-zero fee leaves 0, pinned by unit tests) is matched narrowly. Fees may be negative (rebates) and public trade prices zero or negative.",
    ),
    "C19": (
        "B", "5/C19",
        "deterministic simulation: filtered cancel-orders / close-positions commands injected at seeded instants inside in-flight windows and under link faults; independent scope model + byte-identical outside-scope check",
        "Seeded search over engine states produced by the run itself (several exchanges and underlyings; in-flight, open, partially filled, cancel-in-flight orders; long/short/no position; price known/unknown) x all filter shapes x both commands, also repeated before the first answer; the engine's requests are compared as multisets with a scope model computed from the instrument definitions, marks are checked, and everything outside the filter must be byte-identical.",
        "Trusted: the scope model (sim_b.rs) and stubs as for C03. Close orders are compared on (exchange, instrument, side, price, quantity, market kind); client order ids only need to be unique.",
    ),
    "C01": (
        "A", "5/C01",
        "deterministic simulation: seeded exchange scripts + faulty network (delay/reorder/dup/drop/stale snapshot) vs per-order lifecycle reference model, checked after every delivered message",
        "Seeded search over interleavings of order requests, exchange reports and cancel responses for several concurrent order ids, delivered by a simulated exchange through a delaying / reordering / duplicating / dropping network into the real EngineState; every step is compared with a lifecycle model written from the statement (tracked set, state kind, exchange data, timestamp monotonicity, byte-identical non-interference). A clean batch is evidence, not proof.",
        "Trusted: the reference model (sim_a.rs, ~120 lines) and the harness. Reports keep side/price/quantity fixed per order; equal timestamps accept either value; snapshots that carry an in-flight state are checked only for 'tracked stays tracked'. A scenario may count its timestamps in units of 250, 7 or 1 microseconds instead of milliseconds.",
    ),
    "C09": (
        "A", "5/C09",
        "deterministic simulation: seeded permutations-with-repetition of timestamped balance / order / market messages vs max-timestamp oracle after every delivery",
        "Seeded search over delivery orders (late, duplicated, equal-timestamp) of balance snapshots, order reports, multi-item account snapshots, public trades and top-of-book updates through the engine's account and market entry points; after every delivery each item must hold the greatest delivered timestamp with a value delivered at that timestamp, everything else byte-identical.",
        "Trusted: the oracle bookkeeping in sim_a.rs. One recorded finding (stale Open report re-tracks an order the engine holds no data for) is matched narrowly - not when the engine itself discarded the order's data on a mere cancel request - and reported as KNOWN-FINDING. Top-of-book updates may have one or both sides empty; timestamps may be sub-millisecond.",
    ),
}

NOT_APPLICABLE = {
    "C02": "pure left fold over one fill sequence: no schedule, clock, fault or second party can change its truth; input generation for a pure function is property-based testing, not simulation (DESIGN.md section 6)",
    "C05": "pure fold over one order-book event sequence (its code runs as real code inside C06's book oracle, but no verdict is issued for C05)",
    "C11": "pure function of the instrument collection; no time, schedule, fault or multi-party behaviour in the statement",
    "C13": "stateless function of (subscription set, payload); message order, time and faults are irrelevant to it",
    "C16": "pure fold over closed positions",
    "C17": "pure function of a value sequence",
    "C18": "pure fold over a timed value sequence",
}

# properties that additionally get whole-system runs (Sim H): every N-th run of the batch
WHOLE = {"C01": 40, "C03": 10, "C07": 20, "C09": 40, "C10": 8, "C12": 100, "C14": 20, "C15": 25, "C19": 10}
WHOLE_TECH = " + whole-system runs (every {n}th run): real ExecutionBuilder::add_live -> ExecutionManager::init/run -> SystemBuild::init (stream feed, audit on) -> Engine with LiveClock on the simulated clock, driven only from outside (market stream, scripted exchange clients with delays / silence / errors / lagging unsolicited reports / dropped account connections, operator commands, strategy batches, an exchange without execution link, clock leaps, spurious channel wake-ups), judged after a quiet period from the audit stream, the requests each client received and the engine returned by System::shutdown"
WHOLE_TEXT = {
    "C12": " Whole-system runs: the engine behind the real execution manager's reconnecting account stream must process exactly one reconnecting notice per dropped account connection (failed re-initialisations add none), and every fill the exchange sends on a connection that is up reaches the engine exactly once - the stream never ends by itself.",
    "C01": " Whole-system runs fold the same lifecycle model over the audited end-to-end history: it bounds each order's exchange-reported data after every audit record (on a real replica) and its exact state, in-flight markers included, in the engine handed back.",
    "C03": " Whole-system runs: per exchange the requests the audit stream reports as sent must equal, in order, what that exchange's client received through the real execution manager; requests for an exchange without a link must end the run on a fatal record and reach nobody; refused requests reach nobody; no strategy output while trading is disabled.",
    "C07": " Whole-system runs: per (order, kind) the engine must process exactly as many answers as the exchange client received requests, the client's answer iff it beat the timeout, and once faults stop (2 x (timeout + slowest client) + 1 s of virtual time) no order of the returned engine may still be in flight.",
    "C09": " Whole-system runs: balance snapshots, order reports and public trades stamped up to 500 ms in the past race through the real account / market pipelines; after every audit record (on a replica) each balance and last traded price must carry the greatest exchange timestamp delivered so far with a value delivered at that timestamp, an order's exchange data never moves back while it stays tracked, and the returned engine must hold the same.",
    "C15": " Whole-system runs: fills arrive on a real account stream and public trades (some stamped in the past) on the market stream of the running system; after every audit record (on a replica) P1 / P2 / P3 are evaluated as above, and the returned engine must hold the replica's positions.",
    "C19": " Whole-system runs: cancel-orders and close-positions commands with every filter shape go through System::cancel_orders / close_positions of the running system; the cancels requested are compared with the lifecycle model's view of every order (tracked and not already being cancelled, inside the filter, addressed with the exchange order id when known, each at most once), the close orders with the replica's positions and prices inside the filter.",
    "C10": " Whole-system runs: the audit stream handed out by SystemBuild::init must have consecutive sequences, one record per item pushed into the running system, exactly the last record terminal, and a real replica following it must end equal to the engine returned by System::shutdown.",
    "C14": " Whole-system runs: health per link and globally after every audit record (on a replica) and on the returned engine, one on-disconnect call per notice, and exactly one account notice per account connection the exchange client dropped.",
}

# what the later rounds of seeded changes added to each simulator (appended to the level note)
ADDED = {
    "C01": " Later additions: reports carry any time in force and now and then StrategyId::unknown(); account fills naming a tracked order; liquidation events; a per-run quantity scale down to 1e-10; a restore step (instrument and asset states through JSON and back).",
    "C03": " Later additions: a counting GlobalData on every simulated engine (checked after every event), requests naming another exchange than their instrument's, client order ids shared by two instruments, several error kinds for failed requests, filters through the public constructors (empty selections included), perpetuals with contract sizes, instrument specifications with the real DefaultStrategy, an exchange set whose names sort differently from their ids.",
    "C04": " Later additions: snapshots with partial balances; events about instruments the engine does not track on that exchange; violations that need a second instrument universe in the same process are reproduced with the earlier scenario as recorded history.",
    "C06": " Later additions: the real OrderBookMapSingle on a multi-instrument stream, update ids that change no level (empty depth updates), a bystander book fed by another, quiet connection.",
    "C07": " Later additions: negative quantities acknowledged by the client; a perpetual margined in a third asset with rejections naming it; whole-system runs with account-stream outages longer than the whole backoff ladder.",
    "C08": " Later additions: instrument specifications; sessions of 1 400-2 000 orders (operations tagged in nanosecond digits); re-used client order ids; letter-case variants of configured instrument names.",
    "C09": " Later additions: liquidation events in the freshness model; partial timestamped balances in full snapshots; the restore step of C01.",
    "C10": " Later additions: a late-joining replica seeded from a mid-run snapshot (fifth execution); timestamps 80 years ahead of the machine's clock.",
    "C12": " Later additions: merge input fed through forward_to + UnboundedRx; a fifth sub-batch over the real MockExecution client's broadcast-backed account connection with bursts beyond its capacity; a whole-system block (every 100th run) with failing re-initialisations of the execution manager's account stream.",
    "C14": " Later additions: connectivity, trading and instrument state persisted to JSON and restored mid-run; ExchangeOffline among the error kinds; the market side of the feed served by the real MarketDataInMemory.",
    "C15": " Later additions: perpetuals with contract size 10 / 0.01; restore of the instrument states with equality check.",
    "C19": " Later additions: as for C03 (empty filter selections, instrument specifications + real DefaultStrategy, shared client order ids).",
    "C20": " Later additions: non-default initial global data, events labelled with a second tracked venue, rotating instrument sets with a refused-order oracle; violations that need an earlier backtest in the same process are reproduced with it as recorded history.",
}

PENDING = {k: "not claimed yet: its simulator (DESIGN.md section 5) is still under construction; will be claimed once committed and clean on the unchanged tree" for k in ["C03","C04","C06","C07","C08","C10","C12","C14","C15","C19","C20"]}


def main():
    pending = {k: v for k, v in PENDING.items() if k not in BUILT}
    checks = []
    for pid in sorted(BUILT):
        sim, ref, technique, text, note = BUILT[pid]
        engine = f"simcheck/sim_{sim.lower()}"
        note += ADDED.get(pid, "")
        if pid in WHOLE:
            technique += WHOLE_TECH.format(n=WHOLE[pid])
            text += WHOLE_TEXT[pid]
            note += " Whole-system runs: single-threaded paused runtime (task interleaving decided by the seeded runtime and the paused clock); client order ids re-used while tracked are set aside in the replica comparison; see DESIGN.md section 5, Sim H."
            engine += " + simcheck/sim_h"
        checks.append({
            "property_id": pid,
            "quick_cmd": f"./check {pid} quick",
            "thorough_cmd": f"./check {pid} thorough",
            "evidence_file": f"/verif/evidence/{pid}.json",
            "replay_cmd_template": f"./check {pid} --replay {{path}}",
            "engine": engine,
            "level_claimed": {"category": "exploration", "text": text, "design_ref": f"DESIGN.md section {ref}"},
            "level_note": note,
            "technique": technique,
        })
    na = [{"property_id": k, "reason": v} for k, v in sorted({**NOT_APPLICABLE, **pending}.items())]
    engines = {}
    for pid, (sim, *_rest) in BUILT.items():
        engines.setdefault(sim, []).append(pid)
        if pid in WHOLE:
            engines.setdefault("H", []).append(pid)
    manifest = {
        "version": 1,
        "setup_cmd": "./check build",
        "hooks": {
            "guard": "barter_verif",
            "enable": "RUSTFLAGS=\"--cfg tokio_unstable --cfg barter_verif\" (set by ./check and harness/.cargo/config.toml; tokio_unstable only unlocks tokio's seeded select!/merge tie-breaks, it is not a repo change)",
            "baseline_off_cmd": "cd /repo && cargo test --workspace --no-fail-fast --offline",
            "source_commits": ["c882eb2", "a2191d4"],
            "add_only": False,
        },
        "engines": [
            {
                "name": f"simcheck/sim_{sim.lower()}",
                "path": f"/verif/harness/src/sim_{sim.lower()}.rs",
                "serves_properties": sorted(pids),
                "kind_free_text": "deterministic simulator (one PRNG seed per run, plan-then-execute scenario, delta-debug shrinker, JSON replay) driving real barter-rs code through its existing seams",
            }
            for sim, pids in sorted(engines.items())
        ],
        "checks": checks,
        "not_applicable": na,
        "notes": "All checks: exit 0 = held on everything explored; exit 1 + 'VIOLATION property=<id> replay=<path>' = violation with a minimised scenario that was re-executed twice in fresh processes before being reported; exit 2 = harness error (never a verdict). known_findings.json lists recorded defects (open) and repaired ones (fixed). H1 (wall-clock seam) rewrites four Utc::now() call sites, hence add_only=false; H2 is add-only.",
    }
    with open(os.path.join(HERE, "MANIFEST.json"), "w") as f:
        json.dump(manifest, f, indent=1)
        f.write("\n")
    print("wrote MANIFEST.json:", len(checks), "checks,", len(na), "not_applicable")


if __name__ == "__main__":
    main()
