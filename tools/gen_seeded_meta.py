#!/usr/bin/env python3
"""Write seeded/<id>/meta.json for every seeded change from the table below + seeded/MATRIX.txt."""
import json, os

HERE = os.path.dirname(os.path.dirname(os.path.abspath(__file__)))

# name -> (property, site, what it breaks, what it needs in order to manifest)
TABLE = {
    "C01_1": ("C01", "barter/src/engine/state/order/mod.rs Orders::record_in_flight_cancel",
              "a second cancel request for an order already cancel-in-flight discards the last exchange-confirmed open state",
              "order confirmed Open, cancel recorded, a second cancel recorded before the first answer, then a failed cancel response (order untracked instead of restored) or a stale Open report (timestamp regresses)"),
    "C01_2": ("C01", "barter/src/engine/state/order/mod.rs Orders::update_from_order_snapshot",
              "staleness check moved before the 'nothing left to fill' check in the (Open, Open) and (CancelInFlight, Open) arms",
              "an 'open' report with filled == quantity whose exchange timestamp is strictly older than the data held (a physically contradictory stale report)"),
    "C03_1": ("C03", "barter/src/engine/action/send_requests.rs SendRequestsOutput::is_empty",
              "a strategy batch in which every approved request fails delivery is treated as empty: no errors reported, tick not terminal",
              "trading enabled, strategy output whose every approved request targets a closed / missing link or unknown exchange index, none risk-refused"),
    "C03_2": ("C03", "barter/src/engine/execution_tx.rs MultiExchangeTxMap::find",
              "link lookup by position among *present* links: requests after a missing link go to another exchange's link and are reported sent",
              "an exchange without execution link (None entry) at a lower index than an exchange with a link, and a request for either"),
    "C04_1": ("C04", "barter-execution/src/map.rs generate_execution_instrument_map",
              "per-exchange asset table built from instruments' underlyings only: settlement / quantity-unit assets do not translate",
              "a derivative whose settlement asset is neither its base nor its quote on that exchange, and an index/name translation or balance event for that asset"),
    "C04_2": ("C04", "barter/src/execution/builder.rs ExecutionBuilder::build",
              "None placeholders for tracked-but-untraded exchanges dropped from the link table: positions shift, requests reach the wrong manager (panic) or nobody",
              "an exchange that is tracked but has no execution link and sorts before a traded exchange"),
    "C06_1": ("C06", "barter-data/src/exchange/binance/spot/l2.rs validate_first_update",
              "De Morgan slip: the first non-stale spot update is always admitted whatever its first id",
              "spot rule set, the update covering snapshot id+1 dropped or the stream starting late, so the first live update leaves a gap after the snapshot"),
    "C06_2": ("C06", "barter-data/src/books/mod.rs OrderBook::update",
              "a snapshot is merged into the local book instead of replacing it",
              "a re-initialisation snapshot applied to an already populated book after levels were deleted on the exchange"),
    "C07_1": ("C07", "barter/src/execution/manager.rs ExecutionManager::run",
              "burst-drain loop after a response drops timeouts that became ready in the same wake-up",
              "two or more opens (or cancels) outstanding whose timeouts / responses resolve at the same instant"),
    "C07_2": ("C07", "barter/src/execution/request.rs + manager.rs",
              "request deadline computed at the top of the loop iteration before select! parks: idle time is subtracted from the timeout",
              "a request sent after a quiet period (idle gap + response delay > timeout)"),
    "C08_1": ("C08", "barter-execution/src/exchange/mock/mod.rs open_order (Buy)",
              "buy affordability check ignores fees (debit still includes them): accepted without enough quote, balance goes negative",
              "non-zero fee and a buy with notional <= free < notional * (1 + fee)"),
    "C08_2": ("C08", "barter-execution/src/exchange/mock/account.rs AccountState::trades",
              "trade query by binary search over a history that is not sorted by exchange time",
              "fills with non-monotonic exchange timestamps (clients with skewed clocks) and a query whose time_since falls inside the history"),
    "C09_1": ("C09", "barter/src/engine/state/mod.rs update_from_account (Snapshot arm)",
              "balances inside a full account snapshot overwrite the held balance unconditionally",
              "an older balance arriving inside a full account snapshot after a newer one was applied"),
    "C09_2": ("C09", "barter/src/engine/state/instrument/data.rs DefaultInstrumentMarketData::process",
              "one shared staleness check for top of book and last traded price",
              "trades and top-of-book updates interleaved on one instrument with cross-kind timestamp order (a trade newer than the last trade but older than the held L1, or the reverse)"),
    "C10_1": ("C10", "barter/src/engine/run.rs async_run_with_audit",
              "the feed-ended record is generated but never published by the async runner",
              "async runner with auditing, run ends because the feed is exhausted without a shutdown event"),
    "C10_2": ("C10", "barter/src/engine/audit/state_replica.rs update_from_event",
              "an account reconnect notice is applied to the replica as a market reconnect",
              "an account reconnecting record after that exchange's links left the all-reconnecting initial state"),
    "C12_1": ("C12", "barter-data/src/streams/reconnect/stream.rs ReconnectionState::multiply_backoff",
              "backoff keeps the previous value instead of clamping to the maximum: plateaus below the cap",
              "several consecutive failed re-initialisations with a maximum that is not initial * multiplier^k"),
    "C12_2": ("C12", "barter-data/src/streams/reconnect/stream.rs with_error_handler",
              "map_while instead of filter_map: the first handled non-terminal error ends the whole stream",
              "a non-terminal error item in the middle of a connection on a pipeline using with_error_handler"),
    "C14_1": ("C14", "barter/src/engine/state/connectivity/mod.rs update_from_*_reconnecting",
              "a disconnect notice is ignored while global health is already Reconnecting",
              "overlapping outages: a link drops while another link is still down (or before all links came up)"),
    "C14_2": ("C14", "barter/src/engine/state/mod.rs update_from_account",
              "Trade events take an early-return fast path that skips marking the account link healthy",
              "the first event from a reconnecting account link is a fill"),
    "C15_1": ("C15", "barter/src/engine/state/instrument/mod.rs InstrumentState::update_from_market",
              "re-mark skipped when price() did not move, so the value written by a fill at the fill price survives",
              "a fill at a price different from the market price followed by a priced market event that leaves price() unchanged"),
    "C15_2": ("C15", "barter/src/engine/state/mod.rs EngineState::update_from_market",
              "market events stamped before the last fill update the instrument data but do not re-mark the position",
              "a market event whose exchange time lies after the previous market data but before the last fill"),
    "C19_1": ("C19", "barter/src/engine/state/instrument/mod.rs InstrumentStates::filtered{,_mut}",
              "the Underlyings filter matches on the base asset only",
              "an Underlyings filter and two instruments on one exchange sharing a base with different quotes"),
    "C19_2": ("C19", "barter/src/engine/state/order/mod.rs Orders::record_in_flight_cancel",
              "cancelling an order that is still open-in-flight is not recorded as cancel-in-flight",
              "an order with no exchange acknowledgement yet and the cancel command issued twice before any response"),
    "C20_1": ("C20", "barter/src/backtest/market_data.rs MarketDataInMemory::stream",
              "cooperative yield every 1024 events drops the event selected on the yielding poll",
              "the real in-memory market data with a dataset of at least 1024 events"),
    "C20_2": ("C20", "barter/src/system/mod.rs System::shutdown_after_backtest",
              "a 30 s 'stall guard' around the market forwarder: shutdown overtakes the unforwarded tail of the dataset",
              "a market stream that needs more than 30 s of (virtual) time to finish"),
    # ---- round 2 (sub-agents were additionally told which mechanisms round 1 had used) ----------
    "C01_3": ("C01", "barter/src/engine/state/order/mod.rs Orders::update_from_cancel_response",
              "a cancel response that is an API rejection removes a cancel-in-flight order instead of restoring its last confirmed open state",
              "order cancel-in-flight with confirmed open data and a cancel response Err(Rejected(_)) (connectivity errors still restore)"),
    "C01_4": ("C01", "barter/src/engine/state/instrument/mod.rs InstrumentState::update_from_account_snapshot",
              "a full account snapshot drops every confirmed Open order of the instrument that it does not list",
              "a full snapshot with an entry for instrument X while another Open order of X is tracked but not listed"),
    "C03_3": ("C03", "barter/src/engine/action/cancel_orders.rs",
              "cancel-orders command records cancel-in-flight for every generated request before sending, also for those whose delivery failed",
              "a CancelOrders command that hits a delivery failure (unhealthy, closed or missing link)"),
    "C03_4": ("C03", "barter/src/engine/action/mod.rs ActionOutput::unrecoverable_errors",
              "close-positions output only reports fatal errors of its cancels: failed opens on a dead link are not fatal, tick not terminal",
              "a ClosePositions command for a position with a price on an exchange whose link is closed or missing"),
    "C04_3": ("C04", "barter-instrument/src/index/builder.rs IndexedInstrumentsBuilder::build",
              "exchanges deduplicated before sorting: one exchange gets two indices when definitions interleave",
              "two or more exchanges whose instruments are defined interleaved (A, B, A)"),
    "C04_4": ("C04", "barter-execution/src/indexer.rs AccountEventIndexer::order_key",
              "the order key's own exchange id is ignored: a foreign exchange name translates and the report lands on the local exchange's instrument of the same name",
              "an order report arriving on one exchange's link whose key names a different exchange, with an instrument name shared between the two"),
    "C06_3": ("C06", "barter-data/src/exchange/binance/futures/l2.rs Transformer::init",
              "initial snapshots paired with the instrument map by position (hash-map order), seeding one instrument's sequencer with another's snapshot id",
              "futures, at least two instruments on one connection with different snapshot ids and hash order differing from the snapshot order"),
    "C06_4": ("C06", "barter-data/src/exchange/binance/spot/l2.rs validate_sequence",
              "dropping a stale message counts as a processed update, so the first live update is judged by the steady-state rule",
              "spot, at least one strictly older message before the first live update, snapshot id strictly inside that update's id range"),
    "C07_3": ("C07", "barter/src/execution/manager.rs run (cancel arm)",
              "a cancel answered with OrderAlreadyCancelled / OrderAlreadyFullyFilled is swallowed: no event for that request",
              "a cancel the client rejects with one of those two API errors within the timeout"),
    "C07_4": ("C07", "barter/src/execution/request.rs RequestFuture",
              "deadline checked before the response: a response available at the first poll at/after the deadline is reported as a timeout",
              "a response exactly at the timeout instant, or the manager task polled late (real scheduler delay)"),
    "C08_3": ("C08", "barter-execution/src/exchange/mock/mod.rs open_order",
              "order id 'released' on early rejections that never reserved one: ids reissued",
              "an accepted order, then a limit-order / unknown-instrument rejection, then another accepted order"),
    "C08_4": ("C08", "barter-execution/src/exchange/mock/mod.rs open_order (Buy)",
              "buy fees rounded to 8 decimal places (check, debit and reported fee)",
              "non-zero fee and a buy whose price x quantity x fee needs more than 8 decimal places"),
    "C09_3": ("C09", "barter/src/engine/state/asset/mod.rs AssetState::update_from_balance",
              "an unchanged balance value returns early without advancing the held timestamp",
              "(v @ t10), (same v @ t20), then a late (v' @ t15)"),
    "C09_4": ("C09", "barter/src/engine/state/instrument/data.rs DefaultInstrumentMarketData::process (Trade)",
              "staleness guard compares against the event's received time instead of its exchange time",
              "a late or duplicate trade whose received time is later than the held exchange time (live feed; invisible when received == exchange time)"),
    "C10_3": ("C10", "barter/src/engine/audit/state_replica.rs validate_and_update_context",
              "gap check rewritten into a condition that can never fire: a stream with a missing record is applied",
              "an audit stream with a record removed and at least one more after it"),
    "C10_4": ("C10", "barter/src/engine/audit/state_replica.rs run",
              "the replica stops at a terminal record before applying the event it carries",
              "a run ending with a fatal error on a state-changing event (market / account / trading-state) while trading is enabled"),
    "C12_3": ("C12", "barter-data/src/streams/reconnect/stream.rs with_termination_on_error",
              "the terminal error is yielded as an item and the connection only ends at the inner stream's next item",
              "a connection that raises a terminal error (and then stays quiet)"),
    "C12_4": ("C12", "barter-data/src/streams/reconnect/stream.rs forward_to",
              "burst batching drains each batch of simultaneously ready items in reverse order",
              "two or more items ready in the same poll of a stream passed through forward_to"),
    "C14_3": ("C14", "barter/src/engine/mod.rs update_from_{account,market}_stream",
              "on-disconnect strategy (and audit output) only invoked if the link was healthy before the notice",
              "a disconnect notice for a link that is already reconnecting (repeated notices, or before the link's first item)"),
    "C15_3": ("C15", "barter/src/engine/state/position.rs + instrument/mod.rs",
              "market re-mark passes quantity_abs_max and quantity_abs in swapped order",
              "a priced market event on a position that has been partially reduced"),
    "C15_4": ("C15", "barter/src/engine/state/instrument/mod.rs update_from_trade",
              "after an increasing or partially reducing fill the position is re-marked at the market price instead of the fill price",
              "a fill at a price different from the instrument's current price()"),
    "C19_3": ("C19", "barter/src/strategy/close_positions.rs",
              "close order uses quantity_abs_max instead of quantity_abs",
              "a position that was partially reduced before the close command"),
    "C19_4": ("C19", "barter/src/engine/action/cancel_orders.rs",
              "map_while instead of filter_map: per instrument the scan stops at the first cancel-in-flight order",
              "an instrument in scope holding a mix of cancel-in-flight and other tracked orders"),
    "C20_3": ("C20", "barter/src/backtest/mod.rs backtest()",
              "market stream filtered to drop items whose exchange time is older than the latest seen",
              "a dataset that is not monotonic in exchange time"),
}

# seeded changes that the first version of the checks missed, and what was strengthened
STRENGTHENED = {
    "C01_2": "Sim A: 4th sub-batch 'adversarial reports, unconstrained' (any filled quantity at any timestamp); it was caught before only through reports carrying an in-flight state",
    "C04_1": "Sim C4: perpetuals may settle in an asset that is neither underlying; round trip + balance events cover those assets",
    "C04_2": "Sim C4: managers are created through the real ExecutionBuilder::add_live / ExecutionBuild::init, with tracked-but-untraded exchanges",
    "C08_2": "Sim E: per-client clock skew (fill timestamps not monotonic in acceptance order) and trade queries inside the skew window",
    "C14_2": "Sim B (C14): the healing event is drawn from every account event kind (fill, order report, cancel response), not only balances",
    "C20_1": "Sim G: 3rd sub-batch through the real MarketDataInMemory with 900-3300 events",
    "C20_2": "Sim G: pacing with occasional 1-10 s gaps (a source slower than 30 s of virtual time)",
    "C01_3": "Sim A: a failed cancel response carries one of three error kinds (connectivity / rate limit / rejected), chosen by the scenario",
    "C04_4": "Sim C4: 'foreign order report' step - a report whose envelope names the link's own exchange while the order key names another exchange",
    "C06_3": "Sim D2: the order of bid / ask levels inside a REST snapshot is rotated per scenario (the book must not depend on the venue's ordering)",
    "C07_4": "Sim C7: clock-leap fault (the clock jumps past both the response instant and the deadline in one step); response must win when delay < timeout",
    "C08_4": "Sim E: fee rates 7 and 33 basis points and quantities 0.125 / 0.333 (amounts that do not round to the same value under a different formula)",
    "C09_4": "all simulators: market events carry a local receive time one hour after (and unrelated to) the exchange time",
    "C20_3": "Sim G: datasets that are not chronological (exchange timestamps go backwards inside the dataset)",
}


def main():
    matrix = {}
    mpath = os.path.join(HERE, "seeded", "MATRIX.txt")
    props = []
    if os.path.exists(mpath):
        lines = open(mpath).read().split("\n")
        props = lines[0].split()[1:]
        for l in lines[1:]:
            f = l.split()
            if len(f) == len(props) + 1:
                matrix[f[0]] = dict(zip(props, f[1:]))
    for name, (prop, site, breaks, needs) in TABLE.items():
        d = os.path.join(HERE, "seeded", name)
        if not os.path.isdir(d):
            continue
        verdict = ""
        vp = os.path.join(d, "confirm_verdict.txt")
        if os.path.exists(vp):
            verdict = open(vp).read().strip()
        row = matrix.get(name, {})
        meta = {
            "name": name,
            "property_broken": prop,
            "code_site": site,
            "what_it_breaks": breaks,
            "needs_in_order_to_manifest": needs,
            "origin": "independent sub-agent given only the property text and a scratch worktree of /repo (nothing from /verif)",
            "base_commit": "850e72f (repo HEAD incl. hooks H1/H2 and fixes D1, D2, D4)",
            "what_i_ran": {
                "confirmation": "tools/confirm_seeded.sh in a scratch worktree: (1) cargo test --workspace --no-fail-fast --offline with the change, (2) the demonstration test with the change, (3) the demonstration test without it",
                "confirmation_verdict": verdict,
                "checks": "tools/matrix.sh: git -C /repo apply patch.diff; ./check <P> quick for all 13 claimed properties; git -C /repo checkout -- .",
            },
            "detected_by_quick_checks": sorted([p for p, r in row.items() if r == "X"]),
            "not_detected_by": sorted([p for p, r in row.items() if r == "."]),
            "harness_errors": sorted([p for p, r in row.items() if r.startswith("E")]),
            "detected_by_own_property_check": row.get(prop) == "X" if row else None,
            "missed_by_first_version_then_strengthened": STRENGTHENED.get(name),
        }
        with open(os.path.join(d, "meta.json"), "w") as f:
            json.dump(meta, f, indent=1)
            f.write("\n")
    print("meta.json written for", len(TABLE), "seeded changes; matrix rows:", len(matrix))


if __name__ == "__main__":
    main()
