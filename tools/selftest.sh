#!/bin/sh
# Determinism self-test: every simulator, N run seeds, executed in separate processes at two
# worker counts and with two VERIF_SEED values; the digest over all event logs must be identical.
# usage: tools/selftest.sh [RUNS]   (exit 0 = all digests agree, 2 = mismatch)
DIR=$(cd "$(dirname "$0")/.." && pwd)
RUNS=${1:-20000}
"$DIR/check" build || exit 2
BIN="$DIR/harness/target/release/simcheck"
rc=0
for P in C01 C03 C04 C06 C07 C08 C09 C10 C12 C14 C15 C19 C20 H:C01 H:C03 H:C07 H:C09 H:C10 H:C12 H:C14 H:C15 H:C19; do
  R=$RUNS; [ "$P" = C20 ] && R=$((RUNS/10))
  for SEED in 1 20260926; do
    A=$("$BIN" run $P --runs $R --workers 4  --seed $SEED --no-evidence --verif-dir "$DIR" | grep '^done' | sed 's/.*batch_digest=\([0-9a-f]*\).*/\1/')
    B=$("$BIN" run $P --runs $R --workers 16 --seed $SEED --no-evidence --verif-dir "$DIR" | grep '^done' | sed 's/.*batch_digest=\([0-9a-f]*\).*/\1/')
    C=$("$BIN" run $P --runs $R --workers 7  --seed $SEED --no-evidence --verif-dir "$DIR" | grep '^done' | sed 's/.*batch_digest=\([0-9a-f]*\).*/\1/')
    if [ -n "$A" ] && [ "$A" = "$B" ] && [ "$A" = "$C" ]; then echo "selftest $P seed=$SEED runs=$R digest=$A identical at 4/16/7 workers (3 processes)"; else echo "SELFTEST-MISMATCH $P seed=$SEED: $A $B $C"; rc=2; fi
  done
done
exit $rc
